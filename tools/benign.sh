#!/bin/bash
# usage: tools/benign.sh <patch.diff>...   -- for each behaviour-preserving patch: apply to /repo, run the 71 tests'
# build-free part (all 17 quick checks), revert. Prints one line per (patch, property) that is not silent.
# Evidence files are saved and restored (run nothing else meanwhile).
cd /verif
mkdir -p /tmp/evid.benign && cp evidence/*.json /tmp/evid.benign/
for P in "$@"; do
  git -C /repo apply "$P" 2>/dev/null || { echo "$(basename $P): patch does not apply"; continue; }
  bad=0
  for i in 01 02 03 04 05 06 07 08 09 10 11 12 13 14 15 16 17; do
    ./check C$i > /tmp/bn.out 2>&1; rc=$?
    inc=$(grep -o 'inconclusive=[0-9]*' /tmp/bn.out | tail -1)
    if [ $rc -ne 0 ]; then bad=1; echo "$(basename $P): C$i rc=$rc $(grep -m1 -o 'sig=[^ ]*' /tmp/bn.out | cut -c1-100) $(grep -m1 HARNESS /tmp/bn.out | cut -c1-160)"; fi
    echo "$(basename $P) C$i rc=$rc $inc" >> /tmp/benign.detail
  done
  git -C /repo checkout -- . ; git -C /repo clean -fdq -- src tests
  [ $bad -eq 0 ] && echo "$(basename $P): silent on all 17"
done
cp /tmp/evid.benign/*.json evidence/
echo ALLDONE
