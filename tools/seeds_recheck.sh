#!/bin/bash
# Re-runs every seeded change in /verif/seeded against the quick check of its property (patch applied to /repo
# in place and reverted; run nothing else meanwhile). Prints one line per seed.
cd /verif
mkdir -p /tmp/evid.bak && cp evidence/*.json /tmp/evid.bak/
for d in seeded/C*/; do
  k=$(basename $d); id=${k%%-*}
  git -C /repo apply /verif/$d/patch.diff 2>/dev/null || { echo "$k: patch does not apply"; continue; }
  ./check $id > /tmp/sr.out 2>&1; rc=$?
  git -C /repo checkout -- . ; git -C /repo clean -fdq -- src tests
  echo "$k: rc=$rc $(grep -o 'sig=[^ ]*' /tmp/sr.out | head -1 | cut -c1-90)"
done
cp /tmp/evid.bak/*.json evidence/
echo ALLDONE
