#!/bin/bash
# Runs the repository's pinned test suite with the verification guard OFF (no --cfg, no features).
cd /repo || exit 2
export CARGO_NET_OFFLINE=true
if cargo nextest --version >/dev/null 2>&1 && [ -f /w/lib/nextest.toml ]; then
  exec cargo nextest run --workspace --no-fail-fast --tool-config-file pb:/w/lib/nextest.toml --profile pb --test-threads 8 --offline
else
  exec cargo test --workspace --no-fail-fast --offline
fi
