#!/bin/bash
# usage: tools/mut.sh <patchfile> <PROP> [tier]   -- applies a patch to /repo, runs the check, reverts
P=$1; ID=$2; TIER=${3:-quick}
git -C /repo apply "$P" || { echo "patch does not apply"; exit 3; }
cd /verif && ./check $ID --tier $TIER > /tmp/mut.out 2>&1; rc=$?
git -C /repo checkout -- .
grep -E "^(VIOLATION|SUMMARY|HARNESS|KNOWN)" /tmp/mut.out | cut -c1-300 | head -8
echo "rc=$rc"
