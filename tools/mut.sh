#!/bin/bash
# usage: tools/mut.sh <patchfile> <PROP> [tier]   -- applies a patch to /repo, runs the check, reverts.
# The evidence file of the property is saved and restored: evidence committed must come from the unchanged tree.
P=$1; ID=$2; TIER=${3:-quick}
cp /verif/evidence/$ID.json /tmp/evid.$ID.$$ 2>/dev/null
git -C /repo apply "$P" || { echo "patch does not apply"; exit 3; }
cd /verif && ./check $ID --tier $TIER > /tmp/mut.out 2>&1; rc=$?
git -C /repo checkout -- . ; git -C /repo clean -fdq -- src tests
[ -f /tmp/evid.$ID.$$ ] && mv /tmp/evid.$ID.$$ /verif/evidence/$ID.json
grep -E "^(VIOLATION|SUMMARY|HARNESS|KNOWN)" /tmp/mut.out | cut -c1-300 | head -8
echo "rc=$rc"
