#!/usr/bin/env python3
"""usage: tools/seed_eval.py C07 1 [tier]
Confirms a seeded change produced by a sub-agent in /tmp/seed/<ID>/out/<k> (applies, compiles, the 71 tests
pass with it, its demonstration fails with it and passes without it — all in the scratch worktree
/tmp/seed/<ID>/wt), then runs the /verif check of that property against /repo with the patch applied
(and reverts), and files everything under /verif/seeded/<ID>-<k>/."""
import json, os, re, shutil, subprocess, sys, glob

ID, K = sys.argv[1], sys.argv[2]
TIER = sys.argv[3] if len(sys.argv) > 3 else "quick"
ROUND = os.environ.get("SEED_ROUND", "")
base = "/tmp/seed%s/%s" % (ROUND, ID)
out = "%s/out/%s" % (base, K)
wt = base + "/wt"
tgt = base + "/target"
patch = out + "/patch.diff"
env = dict(os.environ, CARGO_TARGET_DIR=tgt, CARGO_NET_OFFLINE="true")


def sh(cmd, cwd=None, timeout=3000):
    p = subprocess.run(cmd, cwd=cwd, env=env, stdout=subprocess.PIPE, stderr=subprocess.STDOUT, text=True, timeout=timeout, shell=isinstance(cmd, str))
    return p.returncode, p.stdout


def clean():
    sh("git checkout -- . && git clean -fdq -- tests src", cwd=wt)


def nextest(filter_expr=None):
    cmd = "cargo nextest run --workspace --no-fail-fast --test-threads 8 --offline"
    rc, o = sh(cmd, cwd=wt)
    m = re.search(r"(\d+) tests run: (\d+) passed(?:.*?(\d+) failed)?", o)
    failed = re.findall(r"^\s+(?:FAIL|SIGSEGV|SIGABRT|ABORT|TIMEOUT)\s+\[.*?\]\s+(\S+ \S+)", o, re.M)
    return rc, o, (int(m.group(1)), int(m.group(2))) if m else None, sorted(set(failed))


res = {"property": ID, "k": K}
clean()
demos = [f for f in glob.glob(out + "/demo/*.rs")]
res["demo_files"] = [os.path.basename(d) for d in demos]
standalone = not demos or any("fn main" in open(d).read() and "#[test]" not in open(d).read() for d in demos)
# --- with the change
rc, o = sh(["git", "apply", patch], cwd=wt)
res["applies"] = rc == 0
if rc != 0:
    print("PATCH DOES NOT APPLY", o); print(json.dumps(res)); sys.exit(1)
rc, o, counts, failed = nextest()
res["suite_with_change"] = {"counts": counts, "failed": failed}
runsh = out + "/demo/run.sh"
if standalone and os.path.exists(runsh):
    rc_w, o_w = sh(["bash", runsh, wt], cwd=out + "/demo", timeout=1200)
    res["standalone_demo_with_change"] = {"rc": rc_w, "tail": o_w[-400:]}
if not standalone:
    for d in demos:
        shutil.copy(d, wt + "/tests/" + os.path.basename(d))
if not standalone:
    rc, o, counts2, failed2 = nextest()
    res["suite_plus_demo_with_change"] = {"counts": counts2, "failed": failed2}
# --- without the change
sh("git checkout -- src", cwd=wt)
if not standalone:
    rc, o, counts3, failed3 = nextest()
    res["suite_plus_demo_without_change"] = {"counts": counts3, "failed": failed3}
if standalone and os.path.exists(runsh):
    rc_wo, o_wo = sh(["bash", runsh, wt], cwd=out + "/demo", timeout=1200)
    res["standalone_demo_without_change"] = {"rc": rc_wo, "tail": o_wo[-300:]}
clean()
ok = counts is not None and counts[0] == 71 and counts[1] == 71
if not standalone:
    ok = ok and bool(failed2) and not failed3
elif os.path.exists(runsh):
    ok = ok and res["standalone_demo_with_change"]["rc"] != 0 and res["standalone_demo_without_change"]["rc"] == 0
res["standalone_demo"] = standalone
res["confirmed"] = ok
# --- /verif check against /repo with the patch
ev = "/verif/evidence/%s.json" % ID
bak = "/tmp/evid.%s.bak" % ID
if os.path.exists(ev):
    shutil.copy(ev, bak)
rc, o = sh(["git", "-C", "/repo", "apply", patch])
if rc == 0:
    p = subprocess.run(["./check", ID, "--tier", TIER], cwd="/verif", stdout=subprocess.PIPE, stderr=subprocess.STDOUT, text=True)
    sh(["git", "-C", "/repo", "checkout", "--", "."])
    sh(["git", "-C", "/repo", "clean", "-fdq", "--", "src", "tests"])
    lines = [l for l in p.stdout.split("\n") if re.match(r"^(VIOLATION|SUMMARY|HARNESS|  witness)", l)]
    res["check"] = {"tier": TIER, "rc": p.returncode, "lines": [l[:400] for l in lines[:8]]}
else:
    res["check"] = {"error": "patch does not apply to /repo: " + o[:300]}
if os.path.exists(bak):
    shutil.move(bak, ev)
dst = "/verif/seeded/%s-%s%s" % (ID, ("r%s-" % ROUND) if ROUND else "", K)
if os.path.exists(dst):
    shutil.rmtree(dst)
os.makedirs(dst)
shutil.copy(patch, dst + "/patch.diff")
if os.path.isdir(out + "/demo"):
    shutil.copytree(out + "/demo", dst + "/demo")
if os.path.exists(out + "/notes.md"):
    shutil.copy(out + "/notes.md", dst + "/notes.md")
json.dump(res, open(dst + "/eval.json", "w"), indent=1)
print(json.dumps(res, indent=1)[:3000])
