#!/usr/bin/env python3
"""usage: tools/seed_eval_x.py P3 1   (round-7 style: a change written by a persona agent that may break any property)
Same confirmation as tools/seed_eval.py in the scratch worktree /tmp/seed7/<P>/wt, then ALL 17 quick checks are run
against /repo with the patch applied; files everything under /verif/seeded/X7-<P>-<k>/.
--- original doc: tools/seed_eval.py C07 1 [tier]
Confirms a seeded change produced by a sub-agent in /tmp/seed/<ID>/out/<k> (applies, compiles, the 71 tests
pass with it, its demonstration fails with it and passes without it — all in the scratch worktree
/tmp/seed/<ID>/wt), then runs the /verif check of that property against /repo with the patch applied
(and reverts), and files everything under /verif/seeded/<ID>-<k>/."""
import json, os, re, shutil, subprocess, sys, glob

ID, K = sys.argv[1], sys.argv[2]
TIER = sys.argv[3] if len(sys.argv) > 3 else "quick"
ROUND = "7"
XREPO = os.environ.get("X_REPO", "/repo")
XVERIF = os.environ.get("X_VERIF", "/verif")
base = "/tmp/seed%s/%s" % (os.environ.get("X_ROUND", "7"), ID)
out = "%s/out/%s" % (base, K)
wt = base + "/wt"
tgt = base + "/target"
patch = out + "/patch.diff"
env = dict(os.environ, CARGO_TARGET_DIR=tgt, CARGO_NET_OFFLINE="true")


def sh(cmd, cwd=None, timeout=3000):
    p = subprocess.run(cmd, cwd=cwd, env=env, stdout=subprocess.PIPE, stderr=subprocess.STDOUT, text=True, timeout=timeout, shell=isinstance(cmd, str))
    return p.returncode, p.stdout


def clean():
    sh("git checkout -- . && git clean -fdq -- tests src", cwd=wt)


def nextest(filter_expr=None):
    cmd = "cargo nextest run --workspace --no-fail-fast --test-threads 8 --offline"
    rc, o = sh(cmd, cwd=wt)
    m = re.search(r"(\d+) tests run: (\d+) passed(?:.*?(\d+) failed)?", o)
    failed = re.findall(r"^\s+(?:FAIL|SIGSEGV|SIGABRT|ABORT|TIMEOUT)\s+\[.*?\]\s+(\S+ \S+)", o, re.M)
    return rc, o, (int(m.group(1)), int(m.group(2))) if m else None, sorted(set(failed))


res = {"property": ID, "k": K}
clean()
demos = [f for f in glob.glob(out + "/demo/*.rs")]
res["demo_files"] = [os.path.basename(d) for d in demos]
standalone = not demos or any("fn main" in open(d).read() and "#[test]" not in open(d).read() for d in demos)
# --- with the change
rc, o = sh(["git", "apply", patch], cwd=wt)
res["applies"] = rc == 0
if rc != 0:
    print("PATCH DOES NOT APPLY", o); print(json.dumps(res)); sys.exit(1)
rc, o, counts, failed = nextest()
res["suite_with_change"] = {"counts": counts, "failed": failed}
runsh = out + "/demo/run.sh"
if standalone and os.path.exists(runsh):
    rc_w, o_w = sh(["bash", runsh, wt], cwd=out + "/demo", timeout=1200)
    res["standalone_demo_with_change"] = {"rc": rc_w, "tail": o_w[-400:]}
if not standalone:
    for d in demos:
        shutil.copy(d, wt + "/tests/" + os.path.basename(d))
if not standalone:
    rc, o, counts2, failed2 = nextest()
    res["suite_plus_demo_with_change"] = {"counts": counts2, "failed": failed2}
# --- without the change
sh("git checkout -- src", cwd=wt)
if not standalone:
    rc, o, counts3, failed3 = nextest()
    res["suite_plus_demo_without_change"] = {"counts": counts3, "failed": failed3}
if standalone and os.path.exists(runsh):
    rc_wo, o_wo = sh(["bash", runsh, wt], cwd=out + "/demo", timeout=1200)
    res["standalone_demo_without_change"] = {"rc": rc_wo, "tail": o_wo[-300:]}
clean()
ok = counts is not None and counts[0] == 71 and counts[1] == 71
if not standalone:
    ok = ok and bool(failed2) and not failed3
elif os.path.exists(runsh):
    ok = ok and res["standalone_demo_with_change"]["rc"] != 0 and res["standalone_demo_without_change"]["rc"] == 0
res["standalone_demo"] = standalone
res["confirmed"] = ok
# --- all 17 /verif checks against /repo with the patch
stated = ""
try:
    first = open(out + "/notes.md").read().split("\n")[:2]
    stated = " ".join(first)
except OSError:
    pass
res["stated"] = stated
os.makedirs("/tmp/evid.x7", exist_ok=True)
for f in glob.glob(XVERIF + "/evidence/*.json"):
    shutil.copy(f, "/tmp/evid.x7/")
rc, o = sh(["git", "-C", XREPO, "apply", patch])
res["checks"] = {}
if rc == 0:
    only = os.environ.get("X_ONLY", "")
    want = sorted(set(re.findall(r"C\d\d", stated))) if only == "stated" else ["C%02d" % n for n in range(1, 18)]
    for pid in want:
        p = subprocess.run(["./check", pid, "--tier", "quick"], cwd=XVERIF, env=dict(os.environ, VERIF_REPO=XREPO), stdout=subprocess.PIPE, stderr=subprocess.STDOUT, text=True)
        sig = re.search(r"sig=(\S+)", p.stdout)
        res["checks"][pid] = {"rc": p.returncode, "sig": sig.group(1)[:120] if sig and p.returncode == 1 else "", "harness": (re.search(r"HARNESS-ERROR.*", p.stdout) or [""])[0][:160] if p.returncode == 2 else ""}
    sh(["git", "-C", XREPO, "checkout", "--", "."])
    sh(["git", "-C", XREPO, "clean", "-fdq", "--", "src", "tests"])
else:
    res["checks"] = {"error": "patch does not apply to /repo: " + o[:300]}
for f in glob.glob("/tmp/evid.x7/*.json"):
    shutil.copy(f, XVERIF + "/evidence/")
res["caught_by"] = sorted(k for k, v in res["checks"].items() if isinstance(v, dict) and v.get("rc") == 1)
dst = XVERIF + "/seeded/X%s-%s-%s" % (os.environ.get("X_ROUND", "7"), ID, K)
if os.path.exists(dst):
    shutil.rmtree(dst)
os.makedirs(dst)
shutil.copy(patch, dst + "/patch.diff")
if os.path.isdir(out + "/demo"):
    shutil.copytree(out + "/demo", dst + "/demo")
if os.path.exists(out + "/notes.md"):
    shutil.copy(out + "/notes.md", dst + "/notes.md")
json.dump(res, open(dst + "/eval.json", "w"), indent=1)
print(json.dumps(res, indent=1)[:3000])
