#!/bin/bash
# Re-runs every cross-property change in /verif/seeded/X*/ against the quick checks that caught it (meta.json:
# caught_by; thorough-only and not-claimed ones are listed but skipped). Patch applied to /repo in place and
# reverted; run nothing else meanwhile. Prints one line per (seed, check).
cd /verif
mkdir -p /tmp/evid.bak && cp evidence/*.json /tmp/evid.bak/
for d in seeded/X*/; do
  k=$(basename $d)
  ids=$(python3 -c "
import json,re
m=json.load(open('$d/meta.json'))
print(' '.join(sorted(set(re.findall(r'C\d\d', ' '.join(m.get('caught_by') or []))))))")
  note=$(python3 -c "
import json
m=json.load(open('$d/meta.json')); print(m.get('status','') or ('thorough only' if 'thorough' in ' '.join(m.get('caught_by') or []) else ''))")
  if [ -n "$note" ]; then echo "$k: ($note)"; fi
  [ -z "$ids" ] && continue
  [[ "$note" == *thorough* ]] && continue
  git -C /repo apply /verif/$d/patch.diff 2>/dev/null || { echo "$k: patch does not apply"; continue; }
  for id in $ids; do
    ./check $id > /tmp/srx.out 2>&1; rc=$?
    echo "$k $id: rc=$rc $(grep -o 'sig=[^ ]*' /tmp/srx.out | head -1 | cut -c1-90)"
  done
  git -C /repo checkout -- . ; git -C /repo clean -fdq -- src tests
done
cp /tmp/evid.bak/*.json evidence/
echo ALLDONE
