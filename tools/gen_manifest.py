#!/usr/bin/env python3
"""Regenerates /verif/MANIFEST.json from the table below (kept in one place so that it stays valid)."""
import json, os
V = os.path.dirname(os.path.dirname(os.path.abspath(__file__)))

CHECKS = {
 "C01": dict(engine="native", level="exploration", ref="DESIGN.md §5 C01",
   technique="runtime monitoring: real installs on synthetic targets at swept addresses in crash-isolated child processes; behavioural oracle (unique fake id) + independent x86 interpreter over live memory; interposed mmap/mprotect log",
   text="Every explored placement (address region, page offset incl. page-straddling entries, pinned trampoline page, byte-granular fake displacement around +/-2^31, flavour) was really installed and called from 4 threads; each call returned the fake's unique id and an independent decoder followed the entry bytes to exactly the fake. Sampling of an infinite address space: held on the executions observed, not proved.",
   note="Linux x86-64 branch only; kernel honours free mmap hints; interpreter knows the listed jump idioms (unknown encodings are inconclusive)"),
}
NOT_YET = {}

def main():
    props = [json.loads(l) for l in open(os.path.join(V, "properties.jsonl"))]
    checks = []
    na = []
    for p in props:
        pid = p["id"]
        c = CHECKS.get(pid)
        if not c:
            na.append({"property_id": pid, "reason": NOT_YET.get(pid, "check not built yet in this round (planned: see DESIGN.md §5)")})
            continue
        checks.append({
            "property_id": pid,
            "quick_cmd": "./check %s --tier quick" % pid,
            "thorough_cmd": "./check %s --tier thorough" % pid,
            "evidence_file": "evidence/%s.json" % pid,
            "replay_cmd_template": "./check %s --replay {path}" % pid,
            "engine": c["engine"],
            "level_claimed": {"category": c["level"], "text": c["text"], "design_ref": c["ref"]},
            "level_note": c["note"],
            "technique": c["technique"],
        })
    m = {
        "version": 1,
        "setup_cmd": "./tools/setup.sh",
        "hooks": {
            "guard": "--cfg injectorpp_verif",
            "enable": "none needed: every observation point is reached through the public API, symbol interposition in the harness executable and /proc/self/maps; the guard name is reserved and unused",
            "baseline_off_cmd": "./tools/baseline.sh",
            "source_commits": [],
            "add_only": True,
        },
        "engines": [
            {"name": "native", "path": "harness/native", "serves_properties": sorted(k for k, v in CHECKS.items() if "native" in v["engine"]), "kind_free_text": "Rust executable linking /repo's injectorpp; interposes mmap/munmap/mprotect/__clear_cache, shapes the address space, snapshots executable memory, interprets x86 jump idioms; run in crash-isolated children by ./check"},
        ],
        "checks": checks,
        "not_applicable": na,
        "notes": "Technique family: runtime monitoring and sanitizers. Verdicts are three-valued (held / violated / inconclusive); see DESIGN.md §2. Known findings: KNOWN_FINDINGS.txt.",
    }
    json.dump(m, open(os.path.join(V, "MANIFEST.json"), "w"), indent=1)
    print("MANIFEST.json: %d checks, %d not_applicable" % (len(checks), len(na)))

if __name__ == "__main__":
    main()
