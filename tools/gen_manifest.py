#!/usr/bin/env python3
"""Regenerates /verif/MANIFEST.json from the table below (kept in one place so that it stays valid)."""
import json, os
V = os.path.dirname(os.path.dirname(os.path.abspath(__file__)))

CHECKS = {
 "C01": dict(engine="native", level="exploration", ref="DESIGN.md §5 C01",
   technique="runtime monitoring: real installs on synthetic targets at swept addresses in crash-isolated child processes; behavioural oracle (unique fake id) + independent x86 interpreter over live memory; interposed mmap/mprotect log",
   text="Every explored placement (address region, page offset incl. page-straddling entries, pinned trampoline page, byte-granular fake displacement around +/-2^31, flavour) was really installed and called from 4 threads; each call returned the fake's unique id and an independent decoder followed the entry bytes to exactly the fake. Sampling of an infinite address space: held on the executions observed, not proved.",
   note="Linux x86-64 branch only; kernel honours free mmap hints; interpreter knows the listed jump idioms (unknown encodings are inconclusive)"),
 "C02": dict(engine="native", level="exploration", ref="DESIGN.md §5 C02",
   technique="runtime monitoring: seeded random install histories over 80 real targets, reference stack model of 'most recent fake wins', byte images before/after every injector lifetime, many consecutive lifetimes per process; memcheck slice in thorough",
   text="Thousands of real injector lifetimes (0-12 installs, repeated targets, all install kinds, exit by drop / unwinding / verification panic / over-call panic) were executed; after each, every target's bytes equalled the pre-lifetime image and its behaviour was original, and during each the most recent install answered. Histories are sampled, not enumerated.",
   note="harness zeroes fake! call counters itself (independence from C07); x86-64 Linux"),
 "C03": dict(engine="native", level="exploration", ref="DESIGN.md §5 C03",
   technique="runtime monitoring: byte-for-byte snapshots of every readable executable mapping (from /proc/self/maps) before/after every install and after scope exit, differ classifies each changed byte; untouched neighbours at 16-byte pitch are called",
   text="Every byte of executable memory of the process was compared across each API call of the sampled histories: every differing byte lay in the 16-byte entry slot of the named target or in a mapping that install created; after scope exit the diff against the initial snapshot was empty and the page set identical.",
   note="only executable mappings are compared; single-threaded at snapshot time"),
 "C11": dict(engine="native", level="fault_enumeration", ref="DESIGN.md §5 C11",
   technique="runtime monitoring with address-space shaping and fault injection: the +/-128 MiB neighbourhood of a synthetic target is reserved except chosen holes, hinted mmaps are failed by plan through interposers; online ledger of library mappings; independent decoder; call oracle",
   text="For each enumerated (target position, neighbourhood layout, mmap/mprotect fault plan) the real install either kept exactly one mapping within 128 MiB that the entry decodes to and the call reached the fake, or panicked with target bytes, behaviour and mapping set unchanged; every rejected placement was given back (ledger). The layout classes (empty/full/one hole at either extreme/just outside/random) are enumerated; offsets inside are sampled.",
   note="kernel honours free hints above the probed hint floor; clean refusals with a free page are allowed by the property"),
 "C12": dict(engine="native", level="exploration", ref="DESIGN.md §5 C12",
   technique="runtime monitoring: online ledger over interposed mmap/munmap (each munmap must hit exactly one live library mapping with its length; ledger empty after every drop), canary pages, /proc/self/maps page-set comparison, 5e3..1.6e6 create/install/drop cycles; memcheck slice in thorough",
   text="Over thousands (quick) to 10^5 per process (thorough) real create/install/drop cycles the ledger of executable mappings obtained by the library was empty after every drop, equalled the number of live installs during each lifetime, every munmap matched exactly one live library mapping, canaries survived and the executable-anonymous page set stayed equal to the initial one.",
   note="Rust std never maps executable anonymous memory; harness mappings bypass the interposers"),
 "C17": dict(engine="native", level="exploration", ref="DESIGN.md §5 C17",
   technique="runtime monitoring: interposed __clear_cache log with call-time copies of the flushed range + byte diffs of watched code between observation points before/after every API call; offline checker (covered, and flushed after the last write)",
   text="For every API call of the sampled histories (installs, drops, unwinds) every byte that changed in a watched target range and every non-zero byte of a new trampoline page was inside a range passed to __clear_cache during that call, and the copy taken at the last covering flush already held the final value.",
   note="x86-64 keeps instruction caches coherent: decides 'flush requested for the right range at the right time' on the Linux code path, not stale execution"),
}
NOT_YET = {}

def main():
    props = [json.loads(l) for l in open(os.path.join(V, "properties.jsonl"))]
    checks = []
    na = []
    for p in props:
        pid = p["id"]
        c = CHECKS.get(pid)
        if not c:
            na.append({"property_id": pid, "reason": NOT_YET.get(pid, "check not built yet in this round (planned: see DESIGN.md §5)")})
            continue
        checks.append({
            "property_id": pid,
            "quick_cmd": "./check %s --tier quick" % pid,
            "thorough_cmd": "./check %s --tier thorough" % pid,
            "evidence_file": "evidence/%s.json" % pid,
            "replay_cmd_template": "./check %s --replay {path}" % pid,
            "engine": c["engine"],
            "level_claimed": {"category": c["level"], "text": c["text"], "design_ref": c["ref"]},
            "level_note": c["note"],
            "technique": c["technique"],
        })
    m = {
        "version": 1,
        "setup_cmd": "./tools/setup.sh",
        "hooks": {
            "guard": "--cfg injectorpp_verif",
            "enable": "none needed: every observation point is reached through the public API, symbol interposition in the harness executable and /proc/self/maps; the guard name is reserved and unused",
            "baseline_off_cmd": "./tools/baseline.sh",
            "source_commits": [],
            "add_only": True,
        },
        "engines": [
            {"name": "native", "path": "harness/native", "serves_properties": sorted(k for k, v in CHECKS.items() if "native" in v["engine"]), "kind_free_text": "Rust executable linking /repo's injectorpp; interposes mmap/munmap/mprotect/__clear_cache, shapes the address space, snapshots executable memory, interprets x86 jump idioms; run in crash-isolated children by ./check"},
        ],
        "checks": checks,
        "not_applicable": na,
        "notes": "Technique family: runtime monitoring and sanitizers. Verdicts are three-valued (held / violated / inconclusive); see DESIGN.md §2. Known findings: KNOWN_FINDINGS.txt.",
    }
    json.dump(m, open(os.path.join(V, "MANIFEST.json"), "w"), indent=1)
    print("MANIFEST.json: %d checks, %d not_applicable" % (len(checks), len(na)))

if __name__ == "__main__":
    main()
