#!/usr/bin/env python3
"""Regenerates /verif/MANIFEST.json from the table below (kept in one place so that it stays valid)."""
import json, os
V = os.path.dirname(os.path.dirname(os.path.abspath(__file__)))

CHECKS = {
 "C01": dict(engine="native+sim", level="exploration", ref="DESIGN.md §5 C01",
   technique="runtime monitoring: real installs on synthetic targets at swept addresses in crash-isolated child processes; behavioural oracle (unique fake id) + independent x86 interpreter over live memory; interposed mmap/mprotect log",
   text="Every explored placement (address region, page offset incl. page-straddling entries, pinned trampoline page, byte-granular fake displacement around +/-2^31, flavour) was really installed and called from 4 threads; each call returned the fake's unique id and an independent decoder followed the entry bytes to exactly the fake. Sampling of an infinite address space: held on the executions observed, not proved.",
   note="Linux x86-64 branch only; kernel honours free mmap hints; interpreter knows the listed jump idioms (unknown encodings are inconclusive)"),
 "C02": dict(engine="native+sim", level="exploration", ref="DESIGN.md §5 C02",
   technique="runtime monitoring: seeded random install histories over 80 real targets, reference stack model of 'most recent fake wins', byte images before/after every injector lifetime, many consecutive lifetimes per process; guard bookkeeping of the arm64/arm/amd64 emitters checked in simulation; memcheck slice in thorough",
   text="Thousands of real injector lifetimes (0-12 installs, repeated targets, all install kinds, exit by drop / unwinding / verification panic / over-call panic) were executed; after each, every target's bytes equalled the pre-lifetime image and its behaviour was original, and during each the most recent install answered. Histories are sampled, not enumerated.",
   note="harness zeroes fake! call counters itself (independence from C07); x86-64 Linux"),
 "C03": dict(engine="native", level="exploration", ref="DESIGN.md §5 C03",
   technique="runtime monitoring: byte-for-byte snapshots of every readable executable mapping (from /proc/self/maps) before/after every install and after scope exit, differ classifies each changed byte; untouched neighbours at 16-byte pitch are called",
   text="Every byte of executable memory of the process was compared across each API call of the sampled histories: every differing byte lay in the 16-byte entry slot of the named target or in a mapping that install created; after scope exit the diff against the initial snapshot was empty and the page set identical.",
   note="only executable mappings are compared; single-threaded at snapshot time"),
 "C11": dict(engine="native+sim", level="fault_enumeration", ref="DESIGN.md §5 C11",
   technique="runtime monitoring with address-space shaping and fault injection: the +/-128 MiB neighbourhood of a synthetic target is reserved except chosen holes, hinted mmaps are failed by plan through interposers; online ledger of library mappings; independent decoder; call oracle",
   text="For each enumerated (target position, neighbourhood layout, mmap/mprotect fault plan) the real install either kept exactly one mapping within 128 MiB that the entry decodes to and the call reached the fake, or panicked with target bytes, behaviour and mapping set unchanged; every rejected placement was given back (ledger). The layout classes (empty/full/one hole at either extreme/just outside/random) are enumerated; offsets inside are sampled.",
   note="kernel honours free hints above the probed hint floor; clean refusals with a free page are allowed by the property"),
 "C12": dict(engine="native", level="exploration", ref="DESIGN.md §5 C12",
   technique="runtime monitoring: online ledger over interposed mmap/munmap (each munmap must hit exactly one live library mapping with its length; ledger empty after every drop), canary pages, /proc/self/maps page-set comparison, 5e3..1.6e6 create/install/drop cycles; memcheck slice in thorough",
   text="Over thousands (quick) to 10^5 per process (thorough) real create/install/drop cycles the ledger of executable mappings obtained by the library was empty after every drop, equalled the number of live installs during each lifetime, every munmap matched exactly one live library mapping, canaries survived and the executable-anonymous page set stayed equal to the initial one.",
   note="Rust std never maps executable anonymous memory; harness mappings bypass the interposers"),
 "C17": dict(engine="native", level="exploration", ref="DESIGN.md §5 C17",
   technique="runtime monitoring: interposed __clear_cache log with call-time copies of the flushed range + byte diffs of watched code between observation points before/after every API call; offline checker (covered, and flushed after the last write)",
   text="For every API call of the sampled histories (installs, drops, unwinds) every byte that changed in a watched target range and every non-zero byte of a new trampoline page was inside a range passed to __clear_cache during that call, and the copy taken at the last covering flush already held the final value.",
   note="x86-64 keeps instruction caches coherent: decides 'flush requested for the right range at the right time' on the Linux code path, not stale execution"),
 "C04": dict(engine="native", level="exploration", ref="DESIGN.md §5 C04",
   technique="runtime monitoring under stress: 2-16 real threads looping over injector/preventer scopes with delays injected inside the library's own mprotect/munmap/__clear_cache calls; in-critical-section counter, owner cell, behavioural probes, plain-cell lost-update probe, bounded hand-over; thorough adds a ThreadSanitizer build and a Miri many-seeds run of the lock protocol",
   text="Tens of thousands of contended acquisitions over 15 thread-count x delay configurations: no constructor ever returned while another holder was inside, every first call after acquiring was original, every holder saw only its own fake (or originals, for preventers), the lock-protected plain cell lost no update, and a fresh thread always got its turn. Schedules are sampled with stress and injected delays, not enumerated.",
   note="sampled schedules; 30 s bounded-progress limit applies only while no guard object exists"),
 "C05": dict(engine="native", level="fault_enumeration", ref="DESIGN.md §5 C05",
   technique="runtime monitoring with crash-point and fault enumeration: every position of a scripted test body x every kind of library- or user-raised panic (incl. injected mmap/mprotect failures via interposers) x pending call-count expectations; catch_unwind on worker threads, panic-hook counting, byte images, M1 event log, fresh-thread probe, child exit status for aborts; memcheck slice in thorough",
   text="The enumerated script space (7 positions x 13 panic kinds x 10 pending-expectation combinations) was executed for real: never an abort, at most one panic per script, the expected panic class, refusals before any memory was touched, all targets restored, no trampoline left, and a fresh thread could always create, use and drop an injector and a preventer afterwards.",
   note="Rust-ABI fakes only; faults on the install path only"),
 "C06": dict(engine="native", level="exploration", ref="DESIGN.md §5 C06",
   technique="runtime monitoring: per-call outcome log + counter readings (public CallCountVerifier::WithCount) + scope-exit outcome against arithmetic oracle, calls released together on up to 16 threads by a spin barrier, overlap of call windows recorded as evidence of concurrency",
   text="For every (arm, N, k, threads) trial the number of admitted matching calls was min(k,N), the rest panicked 'called more times', non-matching calls panicked and were not counted, the counter equalled k, and scope exit panicked iff k != N naming both numbers; most multi-thread trials had overlapping call windows.",
   note="the harness zeroes the counter before install (independence from C07)"),
 "C07": dict(engine="native", level="exploration", ref="DESIGN.md §5 C07",
   technique="runtime monitoring: sequences of consecutive injector lifetimes through one shared set-up helper (one fake!(times) call site), outcomes compared with a reference model that depends on (N, c_i) only; exhaustive for short sequences",
   text="All sequences of up to 3 (quick) / 4 (thorough) lifetimes over N<=2 and c<=N+2, plus random longer ones with caught panics and thread changes, gave in every lifetime exactly the verdict the reference model computes from that lifetime's own calls.",
   note="simultaneously live installs of one call site are not judged"),
 "C09": dict(engine="native", level="exploration", ref="DESIGN.md §5 C09",
   technique="runtime monitoring: every ordered pair of a 24-member family of function-pointer types (each differing from the base in one respect) through every type-carrying macro form, under catch_unwind, with the M1 event log and byte images proving 'before anything is modified'",
   text="All 6772 (target type, replacement type, macro forms) combinations, null pointers, typed/unchecked mixes and async output-type pairs: accepted iff structurally identical by construction; every refusal was a signature-mismatch / null-pointer panic raised before any library mprotect, flush or executable mmap, with the target bytes unchanged.",
   note="exhaustive over the fixed family, which samples the space of Rust function types; lifetime-only pairs reported, not judged"),
 "C10": dict(engine="native", level="exploration", ref="DESIGN.md §5 C10",
   technique="runtime monitoring: acceptance gate over 25 real function types incl. textual traps; assembly register-file probe (M5) around forced-boolean synthetic targets near/far/low with random register files; Rust-level bool functions with 0-8 arguments",
   text="Every bool-returning type was accepted and every non-bool type (incl. `fn() -> fn() -> bool`) refused before anything was touched; over tens of thousands of probed calls al equalled the requested value and rbx, rbp, r12-r15, rsp, DF, canaries and outgoing stack arguments were unchanged.",
   note="x86-64 stub; ARM/AArch64 stubs in the sim engine"),
 "C13": dict(engine="native", level="exploration", ref="DESIGN.md §5 C13",
   technique="runtime monitoring: hand-written assembly caller and assembly fake record the complete register file and stack on both sides of the redirected call (short and long trampoline form); Rust-level many-argument / large-return shapes near and far",
   text="Over tens of thousands (quick) to millions (thorough) of random register files per placement every argument register, vector register, stack argument, rsp, return address and callee-saved register seen at the fake's first instruction equalled what the caller loaded, and return registers / callee-saved set / rsp / canaries were intact after return, for both trampoline forms.",
   note="x86-64 System V; rax, r10, r11 at entry are scratch by the ABI"),
 "C14": dict(engine="native", level="exploration", ref="DESIGN.md §5 C14",
   technique="runtime monitoring: hand-written poll-counting executor (first-poll readiness is observed, not inferred), side-effect counters in original bodies, counter-drawing value expressions for freshness, reference model over seeded fake/await/re-fake/drop histories, 4 executor threads",
   text="In thousands of histories over 10 async function shapes every faked await was Ready on its first poll with a freshly evaluated value and without running the body; every un-faked function (incl. same-output siblings) behaved originally with its original poll count; all were original again after the drop.",
   note="x86-64 Linux"),
 "C08": dict(engine="arms", level="exploration", ref="DESIGN.md §5 C08",
   technique="runtime monitoring per macro arm: the arms of macro_rules! fake are parsed from the source at check time, one generated program per arm is compiled (rustc's verdict is an observation) and driven through common call runs; event-logging when/assign/returns expressions produce a trace that is compared line by line with an independently written reference model; SIGABRT observed for non-unwinding ABIs",
   text="Every arm found in the current source (52) was instantiated, compiled and run: all compile, and each arm's event trace over 9-11 call runs (matching / non-matching calls, budget reached and exceeded, zero calls, two lifetimes) equals the reference model of the common meaning. Exhaustive over arms; one argument shape per arm in quick, three shapes and three budgets in thorough.",
   note="arms with unrecognised matchers are inconclusive; instantiation shapes are a sample of all well-typed uses"),
 "C15": dict(engine="sim", level="exploration", ref="DESIGN.md §5 C15",
   technique="runtime monitoring of the real emitter in simulation: unmodified patch_arm64.rs/arm64_codegenerator.rs/utils.rs compiled on the host against a simulated memory (Linux and macOS variants, dev and release); independent A64 interpreter executes the bytes written; llvm-mc cross-check of every distinct instruction word",
   text="Over ~1.4 million (quick) emitter invocations - every 16-bit value in every chunk position of the fake address, all word-aligned displacements around -128 MiB/0/+128 MiB, powers of two to 4 GiB, random inside/outside, macOS page-carry grid - the interpreter arrived at exactly the fake through the trampoline writing only x9-x17 (x0 for booleans), and every displacement a B cannot express was refused without touching the entry.",
   note="no AArch64 execution here; silicon behaviour per the Arm ARM is trusted; decoder cross-checked against LLVM"),
 "C16": dict(engine="sim", level="exploration", ref="DESIGN.md §5 C16",
   technique="runtime monitoring of the real emitter in simulation: unmodified patch_arm.rs compiled on the host against a simulated memory; independent A32/T32 interpreters (Align(PC,4) literal rule, interworking BX); saved-bytes bookkeeping checked against the write made; llvm-mc cross-check",
   text="For the three entry cases x boundary and random 32-bit addresses x both fake states the word the literal load reads is the fake's address (Thumb bit included), the BX interworks to it and the guard covers exactly the 12 written bytes; both the A32 and the (repaired) Thumb sequence write only r12.",
   note="no ARM execution here; r9 treated as callee-saved per the Linux EABI"),
}
NOT_YET = {}

def main():
    props = [json.loads(l) for l in open(os.path.join(V, "properties.jsonl"))]
    checks = []
    na = []
    for p in props:
        pid = p["id"]
        c = CHECKS.get(pid)
        if not c:
            na.append({"property_id": pid, "reason": NOT_YET.get(pid, "check not built yet in this round (planned: see DESIGN.md §5)")})
            continue
        checks.append({
            "property_id": pid,
            "quick_cmd": "./check %s --tier quick" % pid,
            "thorough_cmd": "./check %s --tier thorough" % pid,
            "evidence_file": "evidence/%s.json" % pid,
            "replay_cmd_template": "./check %s --replay {path}" % pid,
            "engine": c["engine"],
            "level_claimed": {"category": c["level"], "text": c["text"], "design_ref": c["ref"]},
            "level_note": c["note"],
            "technique": c["technique"],
        })
    m = {
        "version": 1,
        "setup_cmd": "./tools/setup.sh",
        "hooks": {
            "guard": "--cfg injectorpp_verif",
            "enable": "none needed: every observation point is reached through the public API, symbol interposition in the harness executable and /proc/self/maps; the guard name is reserved and unused",
            "baseline_off_cmd": "./tools/baseline.sh",
            "source_commits": [],
            "add_only": True,
        },
        "engines": [
            {"name": "native", "path": "harness/native", "serves_properties": sorted(k for k, v in CHECKS.items() if "native" in v["engine"]), "kind_free_text": "Rust executable linking /repo's injectorpp; interposes mmap/munmap/mprotect/__clear_cache, shapes the address space, snapshots executable memory, interprets x86 jump idioms, assembly register probes, poll-counting executor; run in crash-isolated children by ./check"},
            {"name": "sim", "path": "harness/sim", "serves_properties": ["C01", "C02", "C11", "C15", "C16"], "kind_free_text": "generated at check time: the unmodified emitter sources of /repo compiled on the host against a shim of injector_core::common over a simulated memory; A64, A32/T32 and x86 interpreters; llvm-mc cross-check"},
            {"name": "arms", "path": "lib/armsgen.py", "serves_properties": ["C08"], "kind_free_text": "parses macro_rules! fake at check time, generates and compiles one program per arm, drives them and compares traces with a reference model"},
        ],
        "checks": checks,
        "not_applicable": na,
        "notes": "Technique family: runtime monitoring and sanitizers. Verdicts are three-valued (held / violated / inconclusive); see DESIGN.md §2. Known findings: KNOWN_FINDINGS.txt.",
    }
    json.dump(m, open(os.path.join(V, "MANIFEST.json"), "w"), indent=1)
    print("MANIFEST.json: %d checks, %d not_applicable" % (len(checks), len(na)))

if __name__ == "__main__":
    main()
