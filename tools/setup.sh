#!/bin/bash
# Builds the framework offline from files on disk only (everything is rebuilt again by each check
# from /repo's working tree; this only warms the build directories).
set -e
cd "$(dirname "$0")/.."
export CARGO_NET_OFFLINE=true
mkdir -p build evidence replays
python3 - <<'PY'
import sys, os
sys.path.insert(0, "lib")
import core
core.build_native()
print("native harness built")
PY
