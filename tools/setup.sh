#!/bin/bash
# Builds the framework offline from files on disk only. Every check rebuilds what it needs from /repo's
# working tree anyway (cargo decides what is stale); this warms the build directories so that the first
# quick run is not dominated by compilation.
set -e
cd "$(dirname "$0")/.."
export CARGO_NET_OFFLINE=true
mkdir -p build evidence replays
python3 - <<'PY'
import sys, os
sys.path.insert(0, "lib")
import core, simgen, armsgen
core.build_native()
print("native harness built")
core.build_native(libopt=True)
print("native harness built against the release-like library")
for v in ("linux", "macos"):
    for p in ("dev", "release"):
        simgen.build(v, p)
print("sim engine built (linux/macos x dev/release)")
arms = armsgen.parse_arms(os.path.join(core.REPO, "src", "interface", "macros.rs"))
cl = [(i, c) for i, c in ((i, armsgen.classify(a)) for i, a in enumerate(arms)) if c]
armsgen.build_all(cl, [0])
print("arms programs built: %d" % len(cl))
PY
