"""Common machinery of the /verif checks: building the engines from /repo's working tree,
running crash-isolated child processes, three-valued verdict aggregation, known findings,
replay files and evidence files.  Standard library only."""
import concurrent.futures
import fcntl
import hashlib
import json
import os
import re
import shutil
import signal
import subprocess
import sys
import time

VERIF = os.path.dirname(os.path.dirname(os.path.abspath(__file__)))
REPO = os.environ.get("VERIF_REPO", "/repo")
BUILD = os.path.join(VERIF, "build")
EVID = os.path.join(VERIF, "evidence")
REPLAYS = os.path.join(VERIF, "replays")
KNOWN = os.path.join(VERIF, "KNOWN_FINDINGS.txt")
NCPU = os.cpu_count() or 4
STALL_S = 300.0  # seconds without any new log record before a child is considered hung (thorough / under valgrind)
QUICK_STALL_S = 45.0  # the same for the quick tier, whose cases take milliseconds to a few seconds
WARM_BASE = 1_000_000_000  # case indices at and above this are warm-up cases of a child process


class HarnessError(Exception):
    pass


def env_offline(extra=None):
    e = dict(os.environ)
    e["CARGO_NET_OFFLINE"] = "true"
    e.setdefault("CARGO_TERM_COLOR", "never")
    e.pop("RUSTFLAGS", None) if "VERIF_KEEP_RUSTFLAGS" not in e else None
    if extra:
        e.update(extra)
    return e


class Lock:
    """serialize cargo builds that share a target directory"""

    def __init__(self, name):
        os.makedirs(BUILD, exist_ok=True)
        self.path = os.path.join(BUILD, name + ".lock")

    def __enter__(self):
        self.f = open(self.path, "w")
        fcntl.flock(self.f, fcntl.LOCK_EX)
        return self

    def __exit__(self, *a):
        fcntl.flock(self.f, fcntl.LOCK_UN)
        self.f.close()


def sh(cmd, cwd=None, env=None, timeout=None):
    p = subprocess.run(cmd, cwd=cwd, env=env, timeout=timeout, stdout=subprocess.PIPE, stderr=subprocess.STDOUT, text=True)
    return p.returncode, p.stdout


def sync_lock(crate_dir):
    """copy /repo/Cargo.lock next to the harness crate so that the same dependency versions are used"""
    src = os.path.join(REPO, "Cargo.lock")
    dst = os.path.join(crate_dir, "Cargo.lock")
    if os.path.exists(src):
        shutil.copy(src, dst)


BUILD_NOTES = []


def build_native(profile="dev", features=None, toolchain=None, rustflags=None, target=None, build_std=False, tag="native", libopt=False):
    """Build /verif/harness/native against /repo's current working tree.  Returns the executable."""
    crate = os.path.join(VERIF, "harness", "native")
    tdir = os.path.join(BUILD, tag)
    cmd = ["cargo"]
    if toolchain:
        cmd.append("+" + toolchain)
    cmd += ["build", "--offline", "--quiet"]
    if profile == "release":
        cmd.append("--release")
    if libopt:
        # the LIBRARY compiled the way a release build compiles it (optimised, debug assertions and overflow checks
        # off, cfg(debug_assertions) false) under an unoptimised harness: optimising the harness itself lets the
        # compiler inline or fold the very functions that are to be faked
        for kv in ("opt-level=3", "debug-assertions=false", "overflow-checks=false"):
            cmd += ["--config", "profile.dev.package.injectorpp." + kv]
        if tag == "native":
            tag = "native-librel"
        tdir = os.path.join(BUILD, tag)
    if features:
        cmd += ["--features", features]
    if build_std:
        cmd += ["-Zbuild-std"]
    if target:
        cmd += ["--target", target]
    extra = {"CARGO_TARGET_DIR": tdir}
    if rustflags:
        extra["RUSTFLAGS"] = rustflags
    with Lock("native-src"):
        # all native builds share the crate directory (and its Cargo.lock copy)
        sync_lock(crate)
        rc, out = sh(cmd, cwd=crate, env=env_offline(extra), timeout=1800)
        if rc != 0 and "--no-default-features" not in cmd:
            # the tree under test represents the call-count verifier differently (its fields are public, but they are
            # an implementation detail): build without the harness's access to them; counter-based oracles are off
            tdir = os.path.join(BUILD, tag + "-noccv")
            extra["CARGO_TARGET_DIR"] = tdir
            cmd2 = [c for c in cmd]
            cmd2.insert(cmd2.index("build") + 1, "--no-default-features")
            rc, out2 = sh(cmd2, cwd=crate, env=env_offline(extra), timeout=1800)
            if rc == 0:
                note = "native harness built WITHOUT access to CallCountVerifier's fields (they differ in the tree under test): counter-based oracles and harness-side zeroing are off"
                if note not in BUILD_NOTES:
                    BUILD_NOTES.append(note)
            else:
                out = out2
    if rc != 0:
        raise HarnessError("native harness does not build against the tree under test:\n" + out[-4000:])
    sub = "release" if profile == "release" else "debug"
    exe = os.path.join(tdir, target, sub, "vnative") if target else os.path.join(tdir, sub, "vnative")
    if not os.path.exists(exe):
        raise HarnessError("built executable not found: " + exe)
    return exe


SIGNAMES = {getattr(signal, n): n for n in dir(signal) if n.startswith("SIG") and not n.startswith("SIG_")}


def signame(rc):
    return SIGNAMES.get(-rc, "SIG%d" % -rc) if rc < 0 else "exit%d" % rc


def run_child_cases(exe, scenario, seed, tier, shard, nshards, extra=None, timeout=900, workdir=None, max_restarts=400, env=None, prefix=None, stall=None, max_stalls=3):
    """Run one shard of a scenario in child processes; a crash is attributed to the case whose
    intent record has no outcome record, and the child is restarted after that case.
    Returns (cases, summaries, notes).  Each case: dict(i, class, verdict, sig, detail)."""
    workdir = workdir or os.path.join(BUILD, "runs")
    os.makedirs(workdir, exist_ok=True)
    cases, summaries, notes = [], [], []
    start = 0
    restarts = 0
    stalls = 0
    while True:
        log = os.path.join(workdir, "%s-%s-%d-%d-%d.log" % (scenario, os.getpid(), shard, nshards, restarts))
        if os.path.exists(log):
            os.remove(log)
        cmd = list(prefix or []) + [exe, scenario, "--seed", str(seed), "--tier", tier, "--shard", "%d/%d" % (shard, nshards), "--from", str(start), "--out", log]
        for k, v in (extra or {}).items():
            cmd += ["--" + k, str(v)]
        t0 = time.time()
        timed_out = False
        # the child is watched for progress: every case appends to the log, so a log that stops growing
        # for `stall` seconds means the current case hangs (=> inconclusive for that case, never a violation)
        stall_s = float(os.environ.get("VERIF_STALL_S", "0") or 0) or stall or (STALL_S if tier == "thorough" or prefix else QUICK_STALL_S)
        errf = open(log + ".err", "wb")
        proc = subprocess.Popen(cmd, stdout=subprocess.DEVNULL, stderr=errf, env=env)
        last_size, last_change = -1, time.time()
        rc = None
        while True:
            try:
                rc = proc.wait(timeout=1.0)
                break
            except subprocess.TimeoutExpired:
                pass
            try:
                sz = os.path.getsize(log)
            except OSError:
                sz = 0
            now = time.time()
            if sz != last_size:
                last_size, last_change = sz, now
            if now - last_change > stall_s or now - t0 > timeout:
                proc.kill()
                proc.wait()
                timed_out = True
                rc = None
                break
        errf.close()
        try:
            err = open(log + ".err", "rb").read().decode(errors="replace")[-2000:]
            os.remove(log + ".err")
        except OSError:
            err = ""
        pending = None
        done = set()
        if os.path.exists(log):
            with open(log, errors="replace") as f:
                for line in f:
                    line = line.strip()
                    if not line:
                        continue
                    try:
                        r = json.loads(line)
                    except Exception:
                        continue  # torn last line of a crashed child
                    if r.get("t") == "intent":
                        pending = r
                    elif r.get("t") == "outcome":
                        cases.append(r)
                        done.add(r["i"])
                        if pending is not None and pending["i"] == r["i"]:
                            pending = None
                    elif r.get("t") == "summary":
                        summaries.append(r.get("obs", {}))
            os.remove(log)
        if rc == 0:
            break
        real_done = [x for x in done if x < WARM_BASE]
        if pending is not None and pending["i"] >= WARM_BASE:
            # crash inside the warm-up case (every target faked once): record it; nothing else can run
            crash_sig = (pending.get("desc") or {}).get("crash_sig", "warmup")
            if timed_out:
                cases.append({"t": "outcome", "i": pending["i"], "class": pending.get("class", ""), "verdict": "inconclusive", "sig": "watchdog", "detail": {}})
            else:
                cases.append({"t": "outcome", "i": pending["i"], "class": pending.get("class", ""), "verdict": "violated", "sig": "crash:%s:%s" % (signame(rc), crash_sig), "detail": {"status": signame(rc), "stderr": err[-400:]}})
            break
        if rc == 75 and pending is None and not real_done and done:
            break  # the warm-up case itself reported a violation
        if rc == 75 and pending is None and real_done:
            # the child asked to be restarted after a violation that may have corrupted its state
            start = max(real_done) + 1
            restarts += 1
            if restarts > max_restarts:
                notes.append("gave up after %d restarts" % restarts)
                break
            continue
        if pending is None:
            # died outside any case (start-up, summary) -> harness problem, not a verdict
            notes.append("child %s ended with %s outside any case: %s" % (scenario, "timeout" if timed_out else signame(rc), err[-300:]))
            # the cases this shard did not get to are undecided: say so in the verdict counts, not only in a note
            cases.append({"t": "outcome", "i": -7 - shard, "class": "harness/child-ended-outside-any-case", "verdict": "inconclusive", "sig": "child-ended-outside-any-case", "detail": {"status": "timeout" if timed_out else signame(rc), "stderr": err[-300:], "shard": shard}})
            if timed_out or restarts > 3:
                break
            restarts += 1
            # nothing to skip: avoid looping forever
            if not real_done:
                break
            start = max(real_done) + 1
            continue
        i = pending["i"]
        if timed_out:
            stalls += 1
            cases.append({"t": "outcome", "i": i, "class": pending.get("class", ""), "verdict": "inconclusive", "sig": "watchdog", "detail": {"desc": pending.get("desc"), "wall_s": round(time.time() - t0, 1)}})
            if stalls >= max_stalls:
                notes.append("shard %d/%d of %s stopped after %d hung cases; the remaining cases of the shard were not run" % (shard, nshards, scenario, stalls))
                break
        else:
            crash_sig = (pending.get("desc") or {}).get("crash_sig", pending.get("class", ""))
            cases.append({"t": "outcome", "i": i, "class": pending.get("class", ""), "verdict": "violated", "sig": "crash:%s:%s" % (signame(rc), crash_sig), "detail": {"desc": pending.get("desc"), "status": signame(rc), "stderr": err[-400:]}})
        start = i + 1
        restarts += 1
        if restarts > max_restarts:
            notes.append("gave up after %d restarts" % restarts)
            break
    return cases, summaries, notes


def also_librel(r, tier, in_quick, run):
    """Runs the same sharded workload once more against the build in which the library is compiled release-like
    (see build_native(libopt=True)); its cases are added under the engine name `native-librel`."""
    if tier != "thorough" and not in_quick:
        return
    try:
        exe = build_native(libopt=True)
    except HarnessError as e:
        r.add_case("native-librel", -11, "native-librel/build", "inconclusive", "release-like-library-build-failed", {"error": str(e)[-400:]})
        return
    cases, sums, notes = run(exe)
    r.add_cases(cases, "native-librel")
    r.notes += notes
    r.observe("native-librel", sum_dicts(sums))


def run_sharded(exe, scenario, seed, tier, nshards, extra=None, timeout=900, env=None, prefix=None, stall=None):
    cases, summaries, notes = [], [], []
    with concurrent.futures.ThreadPoolExecutor(max_workers=nshards) as ex:
        futs = [ex.submit(run_child_cases, exe, scenario, seed, tier, s, nshards, extra, timeout, None, 400, env, prefix, stall) for s in range(nshards)]
        for f in futs:
            c, s, n = f.result()
            cases += c
            summaries += s
            notes += n
    return cases, summaries, notes


def load_known():
    known, fixed = [], []
    if os.path.exists(KNOWN):
        for line in open(KNOWN):
            line = line.strip()
            if not line or line.startswith("#"):
                continue
            m = re.match(r"known:\s+property=(\S+)\s+sig=(\S+)\s+(.*)", line)
            if m:
                known.append({"property": m.group(1), "sig": m.group(2), "text": m.group(3)})
                continue
            m = re.match(r"fixed:\s+property=(\S+)\s+(\S+)\s+(.*)", line)
            if m:
                fixed.append({"property": m.group(1), "commit": m.group(2), "text": m.group(3)})
    return known, fixed


def sum_dicts(ds):
    """merge summaries: numbers add, dicts recurse, other values collect distinct"""
    out = {}
    for d in ds:
        for k, v in d.items():
            if isinstance(v, bool):
                out[k] = out.get(k, True) and v if k in out else v
            elif isinstance(v, (int, float)):
                out[k] = out.get(k, 0) + v
            elif isinstance(v, dict):
                out[k] = sum_dicts([out.get(k, {}), v])
            elif isinstance(v, list):
                out[k] = list(out.get(k, [])) + v
            else:
                prev = out.get(k)
                if prev is None:
                    out[k] = v
                elif prev != v:
                    out[k] = prev if isinstance(prev, list) else [prev]
                    if v not in out[k]:
                        out[k].append(v)
    return out


class Run:
    """Aggregates the cases of one check run and turns them into exit status, stdout lines,
    replay files and the evidence file."""

    def __init__(self, pid, tier, seed, level, rule):
        self.pid = pid
        self.tier = tier
        self.seed = seed
        self.level = level
        self.rule = rule
        self.cases = []
        self.observed = {}
        self.notes = []
        self.assumptions = []
        self.extra_cov = {}
        self.t0 = time.time()
        self.exhaustive = None

    def add_cases(self, cases, engine):
        for c in cases:
            c = dict(c)
            c["engine"] = engine
            self.cases.append(c)

    def add_case(self, engine, i, cls, verdict, sig="", detail=None):
        self.cases.append({"engine": engine, "i": i, "class": cls, "verdict": verdict, "sig": sig, "detail": detail or {}})

    def void_if_unobserved(self, observed_something, reason):
        """a run whose monitor observed nothing must not look like 'held': held cases become inconclusive
        (violations found by other means stay)."""
        if observed_something:
            return
        self.notes.append(reason)
        for c in self.cases:
            if c["verdict"] == "held":
                c["verdict"] = "inconclusive"
                c["sig"] = "monitor-observed-nothing"

    def observe(self, key, value):
        self.observed[key] = value

    def finish(self, replay_args=None):
        for n in BUILD_NOTES:
            if n not in self.notes:
                self.notes.append(n)
        known, _fixed = load_known()
        known = [k for k in known if k["property"] == self.pid]
        decided = [c for c in self.cases if c["verdict"] in ("held", "violated")]
        violated = [c for c in self.cases if c["verdict"] == "violated"]
        inconc = [c for c in self.cases if c["verdict"] == "inconclusive"]
        known_hits = {}
        new_viol = []
        for c in violated:
            hit = next((k for k in known if k["sig"] == c["sig"]), None)
            if hit:
                known_hits.setdefault(hit["sig"], [hit, 0])[1] += 1
            else:
                new_viol.append(c)
        classes = sorted(set(c["class"] for c in decided))
        wall = time.time() - self.t0
        lines = []
        for sig, (k, n) in sorted(known_hits.items()):
            lines.append("KNOWN-FINDING: property=%s %s (sig=%s, reproduced %d times)" % (self.pid, k["text"], sig, n))
        by_reason = {}
        for c in inconc:
            by_reason[c["sig"]] = by_reason.get(c["sig"], 0) + 1
        for r, n in sorted(by_reason.items()):
            lines.append("INCONCLUSIVE property=%s n=%d reason=%s" % (self.pid, n, r))
        for n in self.notes:
            lines.append("NOTE property=%s %s" % (self.pid, n))
        # replay files for new violations (one per distinct signature, first witness); files of earlier
        # runs of this property are removed so that the directory describes this run only
        d0 = os.path.join(REPLAYS, self.pid)
        if os.path.isdir(d0):
            for f in os.listdir(d0):
                if f.endswith(".json"):
                    os.remove(os.path.join(d0, f))
        seen = set()
        replay_paths = []
        for c in new_viol:
            if c["sig"] in seen:
                continue
            seen.add(c["sig"])
            d = os.path.join(REPLAYS, self.pid)
            os.makedirs(d, exist_ok=True)
            body = {"property": self.pid, "engine": c.get("engine"), "seed": self.seed, "tier": self.tier, "case_index": c.get("i"), "class": c.get("class"), "sig": c["sig"], "detail": c.get("detail"), "args": replay_args or {}}
            h = hashlib.sha1(json.dumps(body, sort_keys=True, default=str).encode()).hexdigest()[:12]
            path = os.path.join(d, h + ".json")
            with open(path, "w") as f:
                json.dump(body, f, indent=1, default=str)
            replay_paths.append(path)
            lines.append("VIOLATION property=%s replay=%s" % (self.pid, path))
            lines.append("  witness: sig=%s class=%s detail=%s" % (c["sig"], c.get("class"), json.dumps(c.get("detail"), default=str)[:600]))
        # evidence
        samples = []
        step = max(1, len(decided) // 6)
        for c in decided[::step][:8]:
            samples.append({"engine": c.get("engine"), "class": c["class"], "verdict": c["verdict"], "detail": c.get("detail")})
        cov = {
            "evaluations": len(self.cases),
            "decided": len(decided),
            "held": len(decided) - len(violated),
            "violated": len(violated),
            "violated_matching_known_findings": len(violated) - len(new_viol),
            "inconclusive": len(inconc),
            "inconclusive_by_reason": by_reason,
            "distinct_nontrivial": len(classes),
            "rule": self.rule,
            "classes_seen": classes[:400],
            "samples": samples,
            "observed": self.observed,
        }
        if self.exhaustive is not None:
            cov["exhaustive"] = self.exhaustive
        cov.update(self.extra_cov)
        ev = {
            "property_id": self.pid,
            "tier": self.tier,
            "seed": self.seed,
            "level": self.level,
            "coverage": cov,
            "assumptions": self.assumptions,
            "wall_s": round(wall, 2),
            "violations": len(new_viol),
            "known_findings_reproduced": sorted(known_hits.keys()),
            "notes": self.notes,
        }
        os.makedirs(EVID, exist_ok=True)
        tmp = os.path.join(EVID, self.pid + ".json.tmp")
        with open(tmp, "w") as f:
            json.dump(ev, f, indent=1, default=str)
        os.replace(tmp, os.path.join(EVID, self.pid + ".json"))
        for l in lines:
            print(l)
        print("SUMMARY property=%s tier=%s seed=%d cases=%d decided=%d held=%d violated_new=%d known=%d inconclusive=%d distinct_classes=%d wall=%.1fs" % (self.pid, self.tier, self.seed, len(self.cases), len(decided), len(decided) - len(violated), len(new_viol), len(violated) - len(new_viol), len(inconc), len(classes), wall))
        if new_viol:
            return 1
        if len(decided) == 0 or len(classes) < 2:
            print("HARNESS-ERROR property=%s nothing could be decided (decided=%d classes=%d)" % (self.pid, len(decided), len(classes)))
            return 2
        return 0


def load_replay(path):
    with open(path) as f:
        return json.load(f)
