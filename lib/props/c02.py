"""C02 — dropping the injector restores every faked function, for any install history."""
import core
from props import _hist

RULE = ("case = one injector lifetime: a seeded random history of 0-12 installs over a pool of 80 targets (synthetic arena functions at "
        "16-byte pitch incl. a page-straddling one, Rust fns (three of them named through one shared func! call site), generic instantiations (named through one generic helper), a method, libc abs/labs/atoi, async polls) with "
        "repetition of the same target, kinds raw/closure/fake!/fake!+times/boolean/async/unchecked, calls after every install checked "
        "against a stack model (most recent wins), exit normal / by unwinding / by a count-verification panic / by an over-call panic; "
        "after exit the 32-byte image of every target and the whole arena equal the pre-lifetime images and every target returns its "
        "original value; in simulation (unmodified arm64 / arm / amd64 emitters against a simulated memory) the guard each install creates "
        "must restore exactly the range that was overwritten, at that address, with its pre-image. distinct = distinct (set of kinds, max repetition of one target capped at 5, exit path, number of target families) classes")
ASSUME = ["hundreds of consecutive lifetimes share one process so that stale state can accumulate; a violating lifetime ends the child (state may be corrupt) and the parent restarts after it",
          "call counters of fake!(times) sites are zeroed by the harness before each install so that this verdict does not depend on C07"]


def extra(r, exe, thorough):
    if not thorough:
        return
    # valgrind memcheck over a slice of the same workload: invalid reads/writes/frees on restore paths
    import os, shutil, subprocess, re
    vg = shutil.which("valgrind")
    if not vg:
        r.notes.append("valgrind not found: memcheck slice skipped")
        return
    log = os.path.join(core.BUILD, "runs", "memcheck-c02-%d.log" % os.getpid())
    cases, sums, notes = core.run_child_cases(exe, "hist", r.seed + 7, "quick", 0, 1, extra={"mon": "c02", "n": 150, "selfcheck": 1, "nosynth": 1, "valgrind": 1}, timeout=1800,
                                             prefix=[vg, "--tool=memcheck", "--smc-check=all", "--error-exitcode=99", "--quiet", "--log-file=" + log])
    errs = 0
    txt = ""
    if os.path.exists(log):
        txt = open(log, errors="replace").read()
        errs = len(re.findall(r"^==\d+== (Invalid|Mismatched|Use of uninit|Conditional jump|Syscall param)", txt, re.M))
        os.remove(log)
    r.add_cases(cases, "native+memcheck")
    r.observe("memcheck", {"cases": len(cases), "error_reports": errs, "notes": notes})
    if errs:
        r.add_case("native+memcheck", -1, "memcheck/report", "violated", "memcheck:error-report", {"log_excerpt": txt[:1500]})
    else:
        r.add_case("native+memcheck", -1, "memcheck/clean", "held", "", {"cases": len(cases)})


def run(tier, seed):
    r, obs = _run(tier, seed)
    # bookkeeping of the non-x86 back ends (and the amd64 long entry) in simulation: the guard restores exactly
    # the range that was overwritten, with the bytes that were there before
    from props import _sim
    _sim.run_sim(r, "c02sim", seed, tier, ["linux", "macos"], ["dev", "release"] if tier == "thorough" else ["dev"], nshards=6, crosscheck=False)
    # the REAL PatchGuard of common.rs on host memory, incl. guards without a trampoline (what the 32-bit ARM patcher creates)
    _sim.run_sim(r, "c02guard", seed, tier, ["linux"], ["dev"], nshards=2, crosscheck=False)
    return r.finish({"scenario": "hist", "mon": "c02", "n": 40000 if tier == "quick" else 16 * 150000, "batch": 1})


def _run(tier, seed):
    return _hist.run_hist("C02", tier, seed, "c02", 40000, 16 * 150000, RULE, ASSUME, extra_runs=extra)


def replay(path):
    rp = core.load_replay(path)
    if str(rp.get("engine", "")).startswith("sim"):
        import subprocess, simgen
        eng = rp["engine"].split("/")
        exe, _ = simgen.build(eng[1], eng[2], __import__('props._sim', fromlist=['NEEDS']).NEEDS['c02sim'])
        p = subprocess.run([exe, "c02sim", "--seed", str(rp["seed"]), "--tier", rp["tier"], "--only", str(rp["case_index"])], stdout=subprocess.PIPE, text=True)
        print(p.stdout[-2500:])
        return 1 if ('"verdict":"violated"' in p.stdout or p.returncode != 0) else 0
    return _hist.replay_hist(path, "c02")
