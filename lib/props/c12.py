"""C12 — no trampoline mapping is leaked or freed twice over any number of cycles."""
import core
from props import _hist

RULE = ("case = a batch of consecutive create -> install x(0-12, mixed kinds, repeated targets) -> drop cycles in one process; an online "
        "ledger on the interposed mmap/munmap calls requires (how many mappings an installation keeps is not prescribed; the histogram is reported): every library munmap releases one or more WHOLE live library mappings and apart from them only pages nobody has mapped (a range that cuts a mapping or takes somebody else's page along is a violation), the ledger is empty "
        "after every drop; canary pages next to the usual trampoline addresses keep their content; the executable-anonymous page set of "
        "/proc/self/maps is compared with the initial one every 64 cycles. Histories also contain installations the library must refuse (nothing may stay mapped), a self-fake installation (accepted = one more mapping, refused = none), and one lifetime in sixteen runs on a short-lived thread with another thread queued for the guard at scope exit. The placement scenario of C11 (neighbourhood full except one page at the first / last = exactly +128 MiB / +-64 MiB offset) is also run with the release at scope exit judged. Meanwhile a background thread maps (hint only), uses and unmaps ordinary pages right where the library looks for trampoline pages first: none of them may be replaced or unmapped under its feet. distinct = distinct classes of the first history of each batch")
ASSUME = ["Rust std never maps executable anonymous memory, so such mappings are the library's",
          "harness mappings use raw system calls and never enter the ledger"]


def shaped_part(r, exe, thorough):
    """Release at scope exit for trampolines at unusual places: the placement scenario of C11 (neighbourhood full
    except one page: first, last = exactly +128 MiB, +/-64 MiB; very low targets) is run with the release judged.
    Anything else that scenario reports is C11's business and is left to it (inconclusive here)."""
    cases, sums, notes = core.run_sharded(exe, "c11", r.seed, "thorough" if thorough else "quick", 4, extra={"judge_release": 1}, timeout=3000)
    out = []
    for c in cases:
        c = dict(c)
        c["class"] = "shaped/" + c.get("class", "")
        if c.get("verdict") == "violated" and not str(c.get("sig", "")).startswith("c12:"):
            c["verdict"], c["sig"] = "inconclusive", "left-to-C11:" + str(c.get("sig", ""))[:60]
        out.append(c)
    r.add_cases(out, "native/shaped-neighbourhoods")
    r.notes += notes


def extra(r, exe, thorough):
    shaped_part(r, exe, thorough)
    if not thorough:
        return
    import os, shutil, re
    vg = shutil.which("valgrind")
    if not vg:
        r.notes.append("valgrind not found: memcheck slice skipped")
        return
    log = os.path.join(core.BUILD, "runs", "memcheck-c12-%d.log" % os.getpid())
    cases, sums, notes = core.run_child_cases(exe, "hist", r.seed + 11, "quick", 0, 1, extra={"mon": "c12", "n": 10, "batch": 50, "nosynth": 1, "valgrind": 1}, timeout=1800,
                                             prefix=[vg, "--tool=memcheck", "--smc-check=all", "--quiet", "--log-file=" + log])
    errs, txt = 0, ""
    if os.path.exists(log):
        txt = open(log, errors="replace").read()
        errs = len(re.findall(r"^==\d+== (Invalid|Mismatched)", txt, re.M))
        os.remove(log)
    r.add_cases(cases, "native+memcheck")
    r.observe("memcheck", {"cases": len(cases), "error_reports": errs, "notes": notes})
    if errs:
        r.add_case("native+memcheck", -1, "memcheck/report", "violated", "memcheck:error-report", {"log_excerpt": txt[:1500]})
    else:
        r.add_case("native+memcheck", -1, "memcheck/clean", "held", "", {"cases": len(cases)})


def run(tier, seed):
    # quick: 8 shards x 130 batches x 50 = 52000 cycles; thorough: 16 x 2000 batches x 50 = 1.6e6 cycles (1e5 per process)
    r, obs = _hist.run_hist("C12", tier, seed, "c12", 1040, 32000, RULE, ASSUME, batch_quick=50, batch_thorough=50, extra_runs=extra)
    r.observe("cycles", obs.get("lifetimes", 0))
    r.void_if_unobserved(obs.get("ledger_checks", 0) > 0 and obs.get("counters", {}).get("mmap_exec_ok", 0) > 0, "ledger monitor observed nothing")
    return r.finish({"scenario": "hist", "mon": "c12", "n": 1040 if tier == "quick" else 32000, "batch": 50})


def replay(path):
    return _hist.replay_hist(path, "c12")
