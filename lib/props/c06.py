"""C06 — `times: N` admits exactly N matching calls and is verified at scope exit."""
import core

RULE = ("trial = (fake! arm carrying `times`: fn when+returns, fn returns, fn unit assign, unsafe fn returns, fn when+assign+returns, fn unit "
        "times-only) x N in {0,1,2,3,5,8,16,64} (and 255,256,257,65535,65536,65537 with k in {0,1,N-1..N+2}, t in {1,4}) x k in {0..N+2} matching calls x t in {1,2,4,8,16} threads released together by a spin "
        "barrier, with 0-3 non-matching calls interleaved for arms with `when`; `times:` reads a static so N is chosen at run time; the "
        "harness zeroes the counter (public CallCountVerifier::WithCount) before installing in half of the trials and leaves it to the library in the other half; plus boundary trials (exactly N matching calls and several non-matching ones, one per thread, released together; one `when` condition is deliberately slow), admission races (more matching callers than budget, one call per thread) and a worker that calls the target the moment it sees the fully written entry patch (a call absorbed during installation must be counted). Also: a call past the budget (and a non-matching one) made by a destructor while the calling thread unwinds from an unrelated contained panic must still be rejected at the call; and with the next lifetime of the same call site queued in InjectorPP::new() on another thread while this one's scope exit is stretched by delays injected into its deallocations (harness allocator), the exit verdict of a lifetime that made exactly N calls must not panic. Also: four functions a library might be tempted to call itself (Instant::now, SystemTime::now, fs::read_to_string::<&str>, env::var::<&str>) are faked with times: 0 and never called by the test while another fake is installed, used and removed and a second thread queues for the guard: any panic means the library's own work was charged to the user's fake. Also: with the library's own mprotect on the restore path slowed to 25 ms a worker hammers the target from the moment the scope exit starts (budget already spent): a rejection that was complete 10 ms before the exit returned must show in the exit verdict. Also: an in-budget call made by a destructor during an unrelated contained unwind uses up its slot (the next call is over budget); two counted fakes of different arms (two of them unsafe extern C arms) alive in one injector each keep their own count (exact: silent; one call short on one: reported); a refused later installation, contained by the test body, leaves the expectation of an earlier counted fake alone. Oracle: admitted == min(k,N); 'called more "
        "times' panics == max(0,k-N); every non-matching call panics 'unexpected arguments' and leaves the counter alone; counter == k; "
        "scope-exit panic iff k != N, naming both numbers; at most one panic at exit. distinct = (arm, N, k, t, with/without non-matching) "
        "— multi-thread trials in which no two call windows overlapped are classed separately (/no-overlap)")


def run(tier, seed):
    r = core.Run("C06", tier, seed, "exploration", RULE)
    exe = core.build_native()
    nsh = core.NCPU if tier == "thorough" else min(8, core.NCPU)
    cases, sums, notes = core.run_sharded(exe, "c06", seed, tier, nsh, timeout=3000)
    r.add_cases(cases, "native")
    core.also_librel(r, tier, False, lambda exe2: core.run_sharded(exe2, "c06", seed, tier, nsh, timeout=3000))
    r.notes += notes
    obs = core.sum_dicts(sums)
    r.observe("native", obs)
    r.void_if_unobserved(obs.get("multithread_trials_with_overlapping_call_windows", 0) > 0, "no overlapping call windows were observed: concurrency was not exercised")
    r.assumptions = ["call windows are taken from one monotonic clock; overlap of windows is evidence of real concurrency, not a verdict",
                     "the counter is zeroed by the harness before each install so that the verdict does not depend on C07"]
    return r.finish({"scenario": "c06"})


def replay(path):
    import subprocess
    rp = core.load_replay(path)
    exe = core.build_native(libopt="librel" in str(rp.get("engine", "")))
    bad = 0
    for k in range(5):
        p = subprocess.run([exe, "c06", "--seed", str(rp["seed"]), "--tier", rp["tier"], "--only", str(rp["case_index"])], stdout=subprocess.PIPE, text=True)
        bad += '"verdict":"violated"' in p.stdout or p.returncode != 0
    print("trial re-run 5 times (thread schedules are not bit-replayable): violated %d times" % bad)
    return 1 if bad else 0
