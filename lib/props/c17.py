"""C17 — every code modification is followed by an instruction-cache flush covering it."""
import core
from props import _hist

RULE = ("case = one injector lifetime of the history workload; observation points before and after every API call (each install, the "
        "drop / unwind); offline checker over the interposed __clear_cache log (with a copy of the range taken at call time): every byte "
        "of a watched target range that differs between the two observation points, and every non-zero byte of a trampoline page created "
        "by the call, and every byte of a trampoline the library already held that changes during the call (re-use in place), must lie inside a range flushed during the call, and the copy taken at the LAST covering flush must already hold "
        "the byte's final value. distinct = distinct (set of kinds, max repetition, exit path, number of target families) classes")
ASSUME = ["decides the platform-independent code path as compiled for Linux x86-64, where __clear_cache is a no-op: what is checked is that the flush was requested, for the right range, at the right time",
          "a byte whose patched value happens to equal its previous value is not seen as changed; diversity of targets (random filler, different displacements) covers every patch position"]


def run(tier, seed):
    r, obs = _hist.run_hist("C17", tier, seed, "c17", 24000, 16 * 60000, RULE, ASSUME)
    r.observe("flush_events_seen", obs.get("flush_events_seen", 0))
    r.void_if_unobserved(obs.get("flush_checked_bytes", 0) > 0, "flush monitor observed no changed bytes at all")
    return r.finish({"scenario": "hist", "mon": "c17", "n": 24000 if tier == "quick" else 16 * 60000, "batch": 1})


def replay(path):
    return _hist.replay_hist(path, "c17")
