"""C11 — the trampoline is placed within reach or installation fails cleanly."""
import core

RULE = ("case = (target region incl. below 128 MiB where the window is clipped, page-aligned or not) x (layout of the +/-128 MiB "
        "neighbourhood: empty, completely reserved, reserved except one free page at the first / last acceptable page, one page outside "
        "either end, random offsets, two holes) x (fault plan on the library's hinted mmaps: none, first n fail, random subset, all, "
        "mprotect fails). Outcome must be: installed AND exactly one mapping kept AND |mapping - target| <= 128 MiB AND the entry decodes "
        "(independent x86 interpreter) through that mapping to the fake AND the call returns the fake's id; or panic AND target bytes and "
        "behaviour unchanged AND (for placement failures) no executable mapping left AND the set of executable mappings unchanged. Every "
        "munmap must hit exactly one live library mapping with its length (online ledger). arm64 (simulation): for every displacement within "
        "+/-4096 words of -128 MiB and +128 MiB, the page-granular placements around them, and 20 000 far ones, the unmodified emitter writes "
        "a branch that reaches the trampoline or panics with the entry untouched. distinct = (region, alignment, layout class, fault class)")


def run(tier, seed):
    r = core.Run("C11", tier, seed, "fault_enumeration", RULE)
    exe = core.build_native()
    nsh = core.NCPU if tier == "thorough" else min(12, core.NCPU)
    cases, sums, notes = core.run_sharded(exe, "c11", seed, tier, nsh, timeout=3000)
    r.add_cases(cases, "native")
    core.also_librel(r, tier, True, lambda exe2: core.run_sharded(exe2, "c11", seed, tier, nsh, timeout=3000))
    r.notes += notes
    obs = core.sum_dicts(sums)
    r.observe("native", obs)
    r.void_if_unobserved(obs.get("counters", {}).get("mmap_exec", 0) > 0, "no executable mmap of the library was observed")
    # arm64 reach check (the entry B reaches +/-128 MiB minus one word; the allocator accepts +/-128 MiB
    # inclusive): the unmodified patch_arm64.rs in simulation must refuse what it cannot encode
    from props import _sim
    _sim.run_sim(r, "c11sim", seed, tier, ["linux", "macos"] if tier == "thorough" else ["linux"], ["dev"], nshards=3, crosscheck=False)
    r.assumptions = [
        "Linux x86-64: reach is +/-128 MiB as the allocator promises; the kernel honours a hint iff the hinted page is free and at or above the probed hint floor",
        "a clean refusal although a free page exists is allowed by the property (counted as feasible_but_refused, not judged)",
        "a trampoline left mapped when a LATER step fails (injected mprotect failure) is noted, not judged: the property speaks of placements rejected as out of range",
    ]
    return r.finish({"scenario": "c11"})


def replay(path):
    import subprocess
    rp = core.load_replay(path)
    if str(rp.get("engine", "")).startswith("sim"):
        import simgen
        eng = rp["engine"].split("/")
        exe, _ = simgen.build(eng[1], eng[2], __import__('props._sim', fromlist=['NEEDS']).NEEDS['c11sim'])
        p = subprocess.run([exe, "c11sim", "--seed", str(rp["seed"]), "--tier", rp["tier"], "--only", str(rp["case_index"])], stdout=subprocess.PIPE, text=True)
        print(p.stdout[-2500:])
        return 1 if ('"verdict":"violated"' in p.stdout or p.returncode != 0) else 0
    exe = core.build_native(libopt="librel" in str(rp.get("engine", "")))
    p = subprocess.run([exe, "c11", "--seed", str(rp["seed"]), "--tier", rp["tier"], "--only", str(rp["case_index"])], stdout=subprocess.PIPE, text=True)
    print(p.stdout[-3000:])
    bad = '"verdict":"violated"' in p.stdout or p.returncode != 0
    return 1 if bad else 0
