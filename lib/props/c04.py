"""C04 — injector and preventer guards are mutually exclusive across threads."""
import core

RULE = ("case = one configuration (T in {2,3,4,8,16} threads) x (delay mode: none / sleeps injected inside the library's own mprotect, "
        "munmap and __clear_cache calls / mixed with yields); every thread loops over a seeded script of {injector + thread-specific fake "
        "on ONE shared function, injector without install, preventer; one injector in four is obtained through the Default impl instead of the constructor; one acquisition in eight is made by a thread holding a stale unpark token} x {leave by drop, leave by panic}. Monitors: in-critical-section "
        "counter (must read 0 right after a constructor returns), owner cell re-read through the scope, first call right after acquiring "
        "must be original, later calls must be the holder's own fake (injector) or original (preventer), a plain non-atomic cell "
        "incremented only under the guard must equal the number of acquisitions, bounded hand-over (no guard alive + a waiter blocked for "
        "30 s = violation; a fresh thread must get both guard kinds after the run). Three more trials, each the last thing its process does: the "
        "thread that holds a guard asks for a second one (injector in injector, preventer in injector, injector in preventer); if it is "
        "granted (today it waits for itself for good) the outer guard is dropped first and another thread must still be kept out, and a "
        "preventer holder must still see the original. Also fork() while holding an injector (a second thread in the child must not be given a guard), and 70 000 uncontended acquisitions in a row followed by a fresh thread (counters that wrap). Thorough tier: one holder keeps its guard for 40 s with a waiter queued; the waiter must neither get in early nor be turned away, and must get a working guard afterwards. distinct = (threads, delay mode) configurations; the "
        "evidence lists contended hand-overs, distinct predecessor->successor transitions (36 possible) and distinct acquisition-order windows")


def run(tier, seed):
    r = core.Run("C04", tier, seed, "exploration", RULE)
    exe = core.build_native()
    nsh = 15 if tier == "thorough" else 8
    cases, sums, notes = core.run_sharded(exe, "c04", seed, tier, min(nsh, core.NCPU), timeout=3000, stall=1500 if tier == "thorough" else 120)
    r.add_cases(cases, "native")
    core.also_librel(r, tier, False, lambda exe2: core.run_sharded(exe2, "c04", seed, tier, min(nsh, core.NCPU), timeout=3000, stall=1500 if tier == "thorough" else 120))
    r.notes += notes
    acq = sum(c.get("detail", {}).get("acquisitions", 0) for c in cases)
    cont = sum(c.get("detail", {}).get("contended_handovers", 0) for c in cases)
    trans = set()
    for c in cases:
        trans |= set((c.get("detail", {}).get("transitions") or {}).keys())
    r.observe("acquisitions", acq)
    r.observe("contended_handovers", cont)
    r.observe("distinct_transitions_seen", len(trans))
    r.observe("distinct_order_windows", sum(c.get("detail", {}).get("distinct_order_windows_of_8", 0) for c in cases))
    r.observe("delays_injected", max([c.get("detail", {}).get("delays_injected", 0) for c in cases] or [0]))
    r.void_if_unobserved(acq > 0 and cont > 0, "no contended hand-over was observed: the schedule space was not exercised")
    r.assumptions = ["schedules are sampled (stress + injected delays at the library's own system-call boundaries), not enumerated",
                     "the only wall-clock element is the 30 s bounded-progress limit, applied only while the harness's own bookkeeping says no guard object exists"]
    if tier == "thorough":
        extra_sanitizers(r, seed)
    return r.finish({"scenario": "c04"})


def extra_sanitizers(r, seed):
    """ThreadSanitizer build of the same scenario (any missing happens-before through the library's lock on the plain cell is a
    reported race) and a Miri many-seeds run of the lock protocol without installs."""
    import os, subprocess, re
    try:
        exe = core.build_native(features="tsan", toolchain="nightly", rustflags="-Zsanitizer=thread", target="x86_64-unknown-linux-gnu", build_std=True, tag="native-tsan")
    except core.HarnessError as e:
        r.notes.append("TSan build failed (inconclusive for the sanitizer part): " + str(e)[-300:])
        r.add_case("native+tsan", -2, "tsan/build", "inconclusive", "tsan-build-failed", {})
        exe = None
    if exe:
        env = dict(os.environ)
        log = os.path.join(core.BUILD, "runs", "tsan-%d" % os.getpid())
        env["TSAN_OPTIONS"] = "halt_on_error=0 exitcode=66 log_path=%s report_signal_unsafe=0" % log
        cases, sums, notes = core.run_child_cases(exe, "c04", seed, "quick", 0, 1, extra={"n": 600}, timeout=1800, env=env, stall=900)
        reports = 0
        excerpt = ""
        d = os.path.dirname(log)
        for f in os.listdir(d):
            if f.startswith(os.path.basename(log)):
                t = open(os.path.join(d, f), errors="replace").read()
                reports += len(re.findall(r"WARNING: ThreadSanitizer", t))
                excerpt = excerpt or t[:1500]
                os.remove(os.path.join(d, f))
        r.add_cases([c for c in cases if c.get("verdict") != "held" or True], "native+tsan")
        r.observe("tsan", {"configs_run": len(cases), "reports": reports, "notes": notes})
        if reports:
            r.add_case("native+tsan", -3, "tsan/report", "violated", "tsan:data-race-under-the-guard", {"reports": reports, "excerpt": excerpt})
        else:
            r.add_case("native+tsan", -3, "tsan/clean", "held", "", {"configs": len(cases)})
    miri_lockproto(r, seed)


def miri_lockproto(r, seed):
    import os, subprocess
    crate = os.path.join(core.VERIF, "harness", "lockproto")
    if not os.path.isdir(crate):
        return
    core.sync_lock(crate)
    env = core.env_offline({"CARGO_TARGET_DIR": os.path.join(core.BUILD, "miri"), "MIRIFLAGS": "-Zmiri-many-seeds=%d..%d -Zmiri-disable-isolation" % (seed * 16, seed * 16 + 16)})
    with core.Lock("miri"):
        try:
            rc, out = core.sh(["cargo", "+nightly", "miri", "run", "--offline", "--quiet"], cwd=crate, env=env, timeout=2400)
        except Exception as e:  # timeout
            r.add_case("miri", -4, "miri/lockproto", "inconclusive", "watchdog", {"err": str(e)[:200]})
            return
    ub = "Undefined Behavior" in out or "data race" in out.lower()
    bad = "LOCKPROTO-VIOLATION" in out
    r.observe("miri", {"rc": rc, "seeds": 16, "tail": out[-600:]})
    if ub or bad:
        r.add_case("miri", -4, "miri/lockproto", "violated", "miri:ub-or-protocol-violation-in-lock-protocol", {"out": out[-1500:]})
    elif rc == 0:
        r.add_case("miri", -4, "miri/lockproto", "held", "", {"seeds": 16})
    else:
        r.add_case("miri", -4, "miri/lockproto", "inconclusive", "miri-run-failed", {"out": out[-800:]})


def replay(path):
    import subprocess
    rp = core.load_replay(path)
    exe = core.build_native(libopt="librel" in str(rp.get("engine", "")))
    bad = 0
    for k in range(3):
        p = subprocess.run([exe, "c04", "--seed", str(rp["seed"] + k), "--tier", rp["tier"], "--only", str(rp["case_index"])], stdout=subprocess.PIPE, text=True)
        print(p.stdout[-1500:])
        bad += '"verdict":"violated"' in p.stdout or p.returncode != 0
    print("schedule properties are not bit-replayable: configuration re-run 3 times, violated %d times" % bad)
    return 1 if bad else 0
