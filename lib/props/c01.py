"""C01 — a call to a faked function reaches the fake from every address placement."""
import core

RULE = ("cases = (address region of the target, offset in page incl. 1-4 bytes straddling into the next page, protection of that "
        "next page, where the only free page of the +/-128 MiB neighbourhood is, fake placement incl. byte-granular displacements "
        "around +/-2^31 from the trampoline, installation flavour); distinct = distinct (region, straddle bytes, next-page protection, "
        "hole class, fake class, flavour) tuples that were decided (installed and called, or refused and checked untouched), plus the async "
        "poll path on three real futures of the binary at natural placement and with the binary's own neighbourhood reserved except one hole "
        "(first, -64 MiB, +64 MiB, last acceptable page); plus two process-level events between installations: fork() and an installation in the child (must work there and leave the parent alone), and all descriptors above stderr closed and their numbers re-used; "
        "cases whose addresses the kernel would not map are inconclusive and not counted")


def run(tier, seed):
    r = core.Run("C01", tier, seed, "exploration", RULE)
    exe = core.build_native()
    nsh = core.NCPU if tier == "thorough" else min(8, core.NCPU)
    cases, sums, notes = core.run_sharded(exe, "c01", seed, tier, nsh, timeout=1500)
    r.add_cases(cases, "native")
    core.also_librel(r, tier, False, lambda exe2: core.run_sharded(exe2, "c01", seed, tier, nsh, timeout=1500))
    r.notes += notes
    r.observe("native", core.sum_dicts(sums))
    # simulation part: the unmodified patch_amd64.rs against a simulated memory, incl. trampolines beyond
    # +/-2 GiB (Windows-style 12-byte entry) and fake displacements over the whole 64-bit range
    from props import _sim
    _sim.run_sim(r, "c01sim", seed, tier, ["linux"], ["dev", "release"], nshards=6, crosscheck=False)
    r.assumptions = [
        "x86-64 Linux branch of the library only; the Windows-style 12-byte entry and other OS branches are judged in simulation (sim engine)",
        "the kernel honours a hinted mmap when the hinted page is free (needed to pin the trampoline)",
        "synthetic targets are `mov eax, id; ret` in int3-filled arenas: entering anywhere but the first byte traps or returns a foreign id",
    ]
    return r.finish({"scenario": "c01"})


def replay(path):
    rp = core.load_replay(path)
    if str(rp.get('engine', '')).startswith('sim'):
        import subprocess, simgen
        eng = rp['engine'].split('/')
        exe, _ = simgen.build(eng[1], eng[2], __import__('props._sim', fromlist=['NEEDS']).NEEDS['c01sim'])
        p = subprocess.run([exe, 'c01sim', '--seed', str(rp['seed']), '--tier', rp['tier'], '--only', str(rp['case_index'])], stdout=subprocess.PIPE, text=True)
        print(p.stdout[-2500:])
        return 1 if ('"verdict":"violated"' in p.stdout or p.returncode != 0) else 0
    exe = core.build_native(libopt="librel" in str(rp.get("engine", "")))
    import subprocess
    cmd = [exe, "c01", "--seed", str(rp["seed"]), "--tier", rp["tier"], "--only", str(rp["case_index"])]
    p = subprocess.run(cmd)
    print("replayed case %s -> %s" % (rp["case_index"], core.signame(p.returncode) if p.returncode else "exit0"))
    return 0 if p.returncode == 0 else 1
