"""Shared driver for the history workload (scenario `hist` of the native engine)."""
import core


def run_hist(pid, tier, seed, mon, n_quick, n_thorough, rule, assumptions, batch_quick=1, batch_thorough=1, level="exploration", extra_runs=None):
    r = core.Run(pid, tier, seed, level, rule)
    exe = core.build_native()
    thorough = tier == "thorough"
    nsh = core.NCPU if thorough else min(8, core.NCPU)
    n = n_thorough if thorough else n_quick
    batch = batch_thorough if thorough else batch_quick
    cases, sums, notes = core.run_sharded(exe, "hist", seed, tier, nsh, extra={"mon": mon, "n": n, "batch": batch}, timeout=3000)
    r.add_cases(cases, "native")
    core.also_librel(r, tier, False, lambda exe2: core.run_sharded(exe2, "hist", seed, tier, nsh, extra={"mon": mon, "n": n, "batch": batch}, timeout=3000))
    r.notes += notes
    obs = core.sum_dicts(sums)
    r.observe("native", obs)
    r.observe("lifetimes_per_case", batch)
    r.assumptions = assumptions
    if extra_runs:
        extra_runs(r, exe, thorough)
    return r, obs


def replay_hist(path, mon):
    import subprocess
    rp = core.load_replay(path)
    exe = core.build_native(libopt="librel" in str(rp.get("engine", "")))
    a = rp.get("args", {})
    cmd = [exe, "hist", "--seed", str(rp["seed"]), "--tier", rp["tier"], "--only", str(rp["case_index"]), "--mon", mon, "--n", str(a.get("n", 1 << 40)), "--batch", str(a.get("batch", 1))]
    p = subprocess.run(cmd, stdout=subprocess.PIPE, text=True)
    print(p.stdout[-3000:])
    bad = '"verdict":"violated"' in p.stdout or p.returncode not in (0,)
    print("replayed case %s -> %s" % (rp["case_index"], "violated again" if bad else "held"))
    return 1 if bad else 0
