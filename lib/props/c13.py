"""C13 — redirection is transparent to the calling convention."""
import core
from props import _sim

RULE = ("probe configurations: a synthetic target near the binary (short trampoline form, rel32), > 2 GiB away and at a low address (long "
        "form, mov rax/jmp rax), faked by an assembly fake; per configuration N random register files (boundary-biased values): the "
        "assembly caller loads rdi,rsi,rdx,rcx,r8,r9, xmm0-7, 4 stack arguments, rbx,rbp,r12-r15, rax,r10,r11 and two canaries, calls "
        "through a memory operand; the fake records the complete register file at its first instruction and returns chosen rax:rdx / "
        "xmm0:xmm1. Oracle: every argument register, vector register, stack argument, rsp (= caller's rsp - 8), the return address on top "
        "of the stack and the callee-saved set are equal on entry; return registers, callee-saved set, rsp, DF and canaries equal after "
        "return; rax/r10/r11 at entry are scratch by the ABI and not judged. Rust-level shapes near (Rust targets) and far (synthetic "
        "targets): 19 mixed arguments incl. 9 floats, by-value struct and &mut; 128-byte struct by value and by hidden return slot; u128; "
        "(f64,f64); (u64,u64). Where the CPU has AVX the probe also carries bits 128-255 of ymm0-7 (arguments) and ymm0:ymm1 (returns). "
        "AArch64 / ARM part (no such CPU here): the unmodified emitters are run in the sim engine (Linux and macOS variants) and an "
        "independent interpreter lists every register written between the entry and the fake's first instruction: only x9-x17 "
        "(AArch64) resp. r12 (ARM/Thumb) may be written - not x0-x7/r0-r3, x8, the callee-saved set, lr or sp; every instruction word "
        "judged is cross-checked with llvm-mc. distinct = (configuration kind, repetition parity) + (variant, profile, part)")


def run(tier, seed):
    r = core.Run("C13", tier, seed, "exploration", RULE)
    exe = core.build_native()
    per = 4000000 if tier == "thorough" else 400000
    cases, sums, notes = core.run_sharded(exe, "c13", seed, tier, core.NCPU if tier == "thorough" else 5, extra={"n": per}, timeout=3000)
    r.add_cases(cases, "native")
    core.also_librel(r, tier, True, lambda exe2: core.run_sharded(exe2, "c13", seed, tier, core.NCPU if tier == "thorough" else 5, extra={"n": per}, timeout=3000))
    r.notes += notes
    obs = core.sum_dicts(sums)
    r.observe("native", obs)
    r.void_if_unobserved(obs.get("register_files_and_shape_calls", 0) > 0, "no probed call was made")
    _sim.run_sim(r, "c13sim", seed, tier, ["linux", "macos"], ["dev"] if tier == "quick" else ["dev", "release"], nshards=5)
    r.assumptions = ["x86-64 System V is judged by execution; the AArch64/ARM clauses are judged on the emitted bytes by an interpreter (no such hardware here), which covers register writes on the way to the fake, not the stack",
                     "the probe is validated on the un-faked target before every configuration (self-check failure = inconclusive)"]
    return r.finish({"scenario": "c13", "n": per})


def replay(path):
    import subprocess
    rp = core.load_replay(path)
    if str(rp.get('engine', '')).startswith('sim'):
        import simgen
        eng = rp['engine'].split('/')
        exe, _ = simgen.build(eng[1], eng[2], __import__('props._sim', fromlist=['NEEDS']).NEEDS['c13sim'])
        p = subprocess.run([exe, 'c13sim', '--seed', str(rp['seed']), '--tier', rp['tier'], '--only', str(rp['case_index'])], stdout=subprocess.PIPE, text=True)
        print(p.stdout[-2500:])
        return 1 if ('"verdict":"violated"' in p.stdout or p.returncode != 0) else 0
    exe = core.build_native(libopt="librel" in str(rp.get("engine", "")))
    p = subprocess.run([exe, "c13", "--seed", str(rp["seed"]), "--tier", rp["tier"], "--only", str(rp["case_index"]), "--n", str(rp.get("args", {}).get("n", 40000))], stdout=subprocess.PIPE, text=True)
    print(p.stdout[-2000:])
    return 1 if ('"verdict":"violated"' in p.stdout or p.returncode != 0) else 0
