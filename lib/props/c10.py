"""C10 — forced boolean result: only for bool functions, exactly the value, nothing else."""
import core

RULE = ("gate: 25 real function types through func! + will_return_boolean(true/false): 9 whose declared return type is bool (fn, unsafe fn, "
        "extern \"C\", unsafe extern \"C\"/\"system\", generic instantiation, fn-pointer and Option<bool> parameters) must be accepted and "
        "return the value; 16 whose return type is not bool, including textual traps `fn() -> fn() -> bool`, `-> *const fn() -> bool`, "
        "`-> unsafe extern \"C\" fn(i32) -> bool`, `-> fn(fn() -> bool) -> bool`, `-> Option<bool>`, `-> Box<dyn Fn() -> bool>`, "
        "`fn(fn() -> bool)`, must be refused with the boolean-signature panic before anything is touched. stub: synthetic bool targets "
        "near the binary, > 2 GiB away and at low addresses, both values, called through the M5 assembly probe with random register files: "
        "al == value; rbx, rbp, r12-r15, rsp, the direction flag, two stack canaries and the outgoing stack arguments unchanged; plus Rust "
        "bool functions with 0, 3, 8 arguments and an extern \"C\" one called with random arguments. distinct = gate signature classes + "
        "(placement, value) stub classes")


def run(tier, seed):
    r = core.Run("C10", tier, seed, "exploration", RULE)
    exe = core.build_native()
    c1, s1, n1 = core.run_sharded(exe, "c10gate", seed, tier, 1, timeout=900)
    per = 4000000 if tier == "thorough" else 400000
    c2, s2, n2 = core.run_sharded(exe, "c10stub", seed, tier, core.NCPU if tier == "thorough" else 8, extra={"n": per}, timeout=3000)
    r.add_cases(c1, "native/gate")
    core.also_librel(r, tier, True, lambda exe2: core.run_sharded(exe2, "c10gate", seed, tier, 1, timeout=900))
    core.also_librel(r, tier, True, lambda exe2: core.run_sharded(exe2, "c10stub", seed, tier, core.NCPU if tier == "thorough" else 8, extra={"n": per}, timeout=3000))
    r.add_cases(c2, "native/stub")
    r.notes += n1 + n2
    r.observe("gate", core.sum_dicts(s1))
    r.observe("stub", core.sum_dicts(s2))
    r.void_if_unobserved(core.sum_dicts(s2).get("probed_calls", 0) > 0, "no probed call was made")
    r.assumptions = ["x86-64 System V stub only; the AArch64 / ARM stubs are judged in the sim engine (C15/C16)",
                     "caller-saved registers other than al are not judged (a normal return may change them)",
                     "when_called_unchecked + will_return_boolean (no type information) is refused by the library; not judged"]
    return r.finish({"scenario": "c10gate+c10stub", "n": per})


def replay(path):
    import subprocess
    rp = core.load_replay(path)
    exe = core.build_native(libopt="librel" in str(rp.get("engine", "")))
    scn = "c10gate" if rp.get("engine", "").endswith("gate") else "c10stub"
    p = subprocess.run([exe, scn, "--seed", str(rp["seed"]), "--tier", rp["tier"], "--only", str(rp["case_index"]), "--n", str(rp.get("args", {}).get("n", 40000))], stdout=subprocess.PIPE, text=True)
    print(p.stdout[-2000:])
    return 1 if ('"verdict":"violated"' in p.stdout or p.returncode != 0) else 0
