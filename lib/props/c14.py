"""C14 — faked async functions complete at once with the value; others are untouched."""
import core

RULE = ("case = a seeded history of 1-3 injector lifetimes x 4-23 operations over a family of 15 async functions (free functions and a "
        "method; by-value and by-reference parameters; outputs (), u32 x3 siblings, bool, u8, f64, String, [u64;32], Result<Vec<u8>,String>, Option<Box<u64>> (niche layout, None and Some), (u64,String), a 96-byte struct owning a Vec whose constructions and drops are counted; one "
        "function that yields once so the original needs two polls): fake (fresh-value / constant / unchecked variants), re-fake, await "
        "directly, await from inside a parent async block, await on 4 executor threads while the injector lives on the main thread, scope exit by drop / by a panic unwinding through the owner / by a failing call-count verification of an unrelated counted fake, "
        "new lifetime. A hand-written executor polls once per step and records Pending/Ready; every original body bumps a counter; "
        "value expressions draw from a counter. Oracle (reference model fn -> current source): a faked await is Ready on its first poll, "
        "the body counter does not move, the value is a fresh evaluation (never seen before / increasing) or the constant; an un-faked "
        "function, incl. same-output siblings awaited right after, gives its original value in its original number of polls with the body "
        "run once; after the drop all fifteen are original; the counted struct is never dropped more often than made and never torn. distinct = (set of faked functions, re-fakes capped at 3, lifetimes)")


def run(tier, seed):
    r = core.Run("C14", tier, seed, "exploration", RULE)
    exe = core.build_native()
    n = 16 * 20000 if tier == "thorough" else 24000
    cases, sums, notes = core.run_sharded(exe, "c14", seed, tier, core.NCPU if tier == "thorough" else 8, extra={"n": n}, timeout=3000)
    r.add_cases(cases, "native")
    core.also_librel(r, tier, False, lambda exe2: core.run_sharded(exe2, "c14", seed, tier, core.NCPU if tier == "thorough" else 8, extra={"n": n}, timeout=3000))
    r.notes += notes
    obs = core.sum_dicts(sums)
    r.observe("native", obs)
    r.void_if_unobserved(obs.get("awaits_checked", 0) > 0 and obs.get("fakes_installed", 0) > 0, "no faked await was observed")
    r.assumptions = ["x86-64 Linux; poll functions of the futures are patched like any other function (C01-C03 cover placement and restoration)"]
    return r.finish({"scenario": "c14", "n": n})


def replay(path):
    import subprocess
    rp = core.load_replay(path)
    exe = core.build_native(libopt="librel" in str(rp.get("engine", "")))
    p = subprocess.run([exe, "c14", "--seed", str(rp["seed"]), "--tier", rp["tier"], "--only", str(rp["case_index"]), "--n", str(rp.get("args", {}).get("n", 2400))], stdout=subprocess.PIPE, text=True)
    print(p.stdout[-2000:])
    return 1 if ('"verdict":"violated"' in p.stdout or p.returncode not in (0,)) else 0
