"""Shared driver for the sim engine."""
import os
import core
import simgen


NEEDS = {"c15": ("arm64",), "c16": ("arm",), "c13sim": ("arm64", "arm"), "c01sim": ("amd64",), "c11sim": ("arm64",), "c02sim": (), "c02guard": ("realcore",)}


def run_sim(r, scenario, seed, tier, variants, profiles, nshards=4, extra=None, crosscheck=True):
    totals = {}
    words_files = []
    for v in variants:
        for prof in profiles:
            try:
                exe, changes = simgen.build(v, prof, NEEDS.get(scenario, simgen.EMITTERS))
            except core.HarnessError as e:
                # the emitters no longer compile against the shim (their interface to `common` changed): the
                # simulation part cannot say anything; whatever else the check decided stands on its own
                r.add_case("sim/%s/%s" % (v, prof), -9, "sim-engine/build", "inconclusive", "sim-engine-does-not-build-against-this-tree", {"error": str(e)[-600:]})
                r.notes.append("sim engine (%s/%s) does not build against the tree under test: its part is inconclusive" % (v, prof))
                continue
            r.observe("source_transformations_%s" % v, changes)
            wf = os.path.join(core.BUILD, "runs", "words-%s-%s-%s-%d" % (scenario, v, prof, os.getpid()))
            ex = dict(extra or {})
            cases, sums, notes = [], [], []
            # shards write separate word files
            import concurrent.futures
            with concurrent.futures.ThreadPoolExecutor(max_workers=nshards) as pool:
                futs = []
                for s in range(nshards):
                    e2 = dict(ex)
                    e2["words"] = "%s.%d" % (wf, s)
                    words_files.append(e2["words"])
                    futs.append(pool.submit(core.run_child_cases, exe, scenario, seed, tier, s, nshards, e2, 3000))
                for f in futs:
                    c, s_, n = f.result()
                    cases += c
                    sums += s_
                    notes += n
            r.add_cases(cases, "sim/%s/%s" % (v, prof))
            r.notes += notes
            totals["%s/%s" % (v, prof)] = core.sum_dicts(sums)
    r.observe("sim", totals)
    evals = sum(t.get("evaluations_total", 0) for t in totals.values())
    r.extra_cov["emitter_invocations"] = evals
    if crosscheck:
        merged = os.path.join(core.BUILD, "runs", "words-%s-%d.all" % (scenario, os.getpid()))
        seen = set()
        with open(merged, "w") as out:
            for wf in words_files:
                if os.path.exists(wf):
                    for line in open(wf):
                        if line not in seen:
                            seen.add(line)
                            out.write(line)
                    os.remove(wf)
        checked, agree, bad, why = simgen.llvm_crosscheck(merged)
        os.remove(merged)
        r.observe("llvm_mc_crosscheck", {"distinct_words": len(seen), "words_checked": checked, "agreements": agree, "disagreements": bad[:10], "skipped": why})
        if bad:
            # the trusted base is "LLVM's disassembler and the interpreter agree on every word judged": a
            # disagreement makes the verdicts that rest on the interpreter inconclusive, not violations
            r.add_case("llvm-mc", -5, "decoder-crosscheck", "inconclusive", "interpreter-and-llvm-disagree", {"examples": bad[:10]})
        elif checked:
            r.add_case("llvm-mc", -5, "decoder-crosscheck/agree", "held", "", {"words": checked})
    else:
        for wf in words_files:
            if os.path.exists(wf):
                os.remove(wf)
    return totals, evals
