"""C16 — 32-bit ARM patches (ARM and Thumb) load and branch to exactly the fake."""
import core
from props import _sim

RULE = ("the UNMODIFIED patch_arm.rs is compiled on the host against a simulated memory (dev and release) and driven, for each of the "
        "three entry cases (A32; T32 at 0 mod 4; T32 at 2 mod 4), with boundary target addresses x boundary fake addresses in both "
        "instruction-set states plus random 32-bit pairs, plus both forced booleans. Independent A32/T32 interpreters (LDR literal 16- and "
        "32-bit forms with the Align(PC,4) rule, BX, MOV, MOVW/MOVT, NOP) execute the 12 bytes written: the word the literal load actually "
        "reads must be the fake's address with its Thumb bit, the BX must interwork to it, the saved bytes must be the pre-image of exactly "
        "the written range, and no register the AAPCS requires a callee to preserve (r4-r11, sp) may be written; writes to r0-r3/lr are "
        "reported as notes. Every distinct instruction judged is cross-checked with llvm-mc. distinct = (entry case, batch, profile)")


def run(tier, seed):
    r = core.Run("C16", tier, seed, "exploration", RULE)
    totals, evals = _sim.run_sim(r, "c16", seed, tier, ["linux"], ["dev", "release"], nshards=3)
    r.void_if_unobserved(evals > 0, "the emitter was never invoked")
    r.assumptions = ["no ARM execution is possible here (no qemu, no cross toolchain): that hardware executes these bytes as the Arm ARM says is trusted; decoder base cross-checked with llvm-mc",
                     "r9 is treated as callee-saved (v6), as under the Linux EABI"]
    return r.finish({"scenario": "c16"})


def replay(path):
    import subprocess, simgen
    rp = core.load_replay(path)
    eng = (rp.get("engine") or "sim/linux/dev").split("/")
    exe, _ = simgen.build(eng[1], eng[2], __import__('props._sim', fromlist=['NEEDS']).NEEDS['c16'])
    p = subprocess.run([exe, "c16", "--seed", str(rp["seed"]), "--tier", rp["tier"], "--only", str(rp["case_index"])], stdout=subprocess.PIPE, text=True)
    print(p.stdout[-2500:])
    return 1 if ('"verdict":"violated"' in p.stdout or p.returncode != 0) else 0
