"""C08 — every fake! option combination compiles and means the same thing."""
import concurrent.futures
import os
import subprocess
import core
import armsgen

RULE = ("the arms of `macro_rules! fake` are parsed from the source at check time; each arm (function kind x unit/non-unit x option subset) is "
        "instantiated as its own small program with the same shape (a: i32, out: *mut i32; value i32 or ()) and event-logging "
        "when/assign/returns expressions, compiled (one rustc verdict per arm), and driven through the same runs: [m] [n] [m,m] [m,m,m] "
        "[m,n] [m,m,n] [] two lifetimes [m,m];[m,m] and, for unwinding ABIs, the long script [m,n,m,m,n,m];[m] (m = matching call, n = "
        "non-matching, budget 2; thorough adds budgets 0 and 3 and two more argument shapes). Arms with a non-unwinding ABI abort at the "
        "first panic inside the fake (the language's rule): each run has at most its last call panicking and the trace is flushed before "
        "every call. Oracle: the printed trace (when evaluated first and exactly once; rejected => panic 'unexpected arguments', no "
        "assign/returns event, *out untouched, not counted; budget checked next => 'more times', no assign/returns; then assign, then "
        "returns evaluated afresh with the arguments in scope; scope-exit verdict; original back) equals the reference model line by "
        "line. distinct = (arm, argument shape, budget)")

RUNS = ["m", "n", "m,m", "m,m,m", "m,n", "m,m,n", "", "m,m;m,m", "m;m,m"]
LONG = ["m,n,m,m,n,m;m", "n,n,m;m,m"]
# runs whose `times:` expression evaluates to a different budget in each lifetime of the same call site
VARBUDGET = [("3:1", "m,m,m;m"), ("1:3", "m;m,m,m"), ("3:1", "m,m,m;m,m"), ("0:2", ";m,m")]


def zero_param_part(r, classified):
    """Every option combination also compiles for a function that takes NO parameters (the matchers repeat the
    parameter pattern zero or more times). One little program per family of arms (same qualifier); a family that
    does not compile is reported with rustc's first error."""
    import shutil
    proj = os.path.join(core.BUILD, "c08-zero")
    bindir = os.path.join(proj, "src", "bin")
    os.makedirs(bindir, exist_ok=True)
    open(os.path.join(proj, "Cargo.toml"), "w").write('[package]\nname = "c08zero"\nversion = "0.0.0"\nedition = "2021"\npublish = false\n[dependencies]\ninjectorpp = { path = "%s" }\n[workspace]\n' % core.REPO)
    lock = os.path.join(core.REPO, "Cargo.lock")
    if os.path.exists(lock):
        shutil.copy(lock, os.path.join(proj, "Cargo.lock"))
    for f in os.listdir(bindir):
        os.remove(os.path.join(bindir, f))
    fams = {}
    for i, c in classified:
        fams.setdefault(c["qual"], []).append((i, c))
    names = {}
    for k, (qual, lst) in enumerate(sorted(fams.items())):
        name = "zero%d" % k
        names[name] = (qual, len(lst))
        body = ["#![allow(unused)]", "use injectorpp::interface::injector::*;", "static SIDE: std::sync::atomic::AtomicUsize = std::sync::atomic::AtomicUsize::new(0);", "fn main() {"]
        for i, c in lst:
            opts = ""
            for o in c["opts"]:
                opts += {"when": ", when: true", "assign": ", assign: { SIDE.fetch_add(1, std::sync::atomic::Ordering::SeqCst); }", "returns": ", returns: 1", "times": ", times: 1"}[o]
            body.append("    { let _arm%d = injectorpp::fake!(func_type: %s() -> %s%s); }" % (i, qual, "()" if c["unit"] else "i32", opts))
        body += ['    println!("ok");', "}"]
        open(os.path.join(bindir, name + ".rs"), "w").write("\n".join(body) + "\n")
    tdir = os.path.join(core.BUILD, "c08-zero-target")
    for name in names:
        exe = os.path.join(tdir, "debug", name)
        if os.path.exists(exe):
            os.remove(exe)
    rc, out = core.sh(["cargo", "build", "--offline", "--bins", "--keep-going", "--message-format=short"], cwd=proj, env=core.env_offline({"CARGO_TARGET_DIR": tdir}), timeout=900)
    built = [n for n in names if os.path.exists(os.path.join(tdir, "debug", n))]
    if not built:
        r.add_case("arms", -31, "zero-parameter-forms/build", "inconclusive", "zero-parameter-programs-did-not-build-at-all", {"cargo": out[-500:]})
        return
    for name, (qual, n) in sorted(names.items()):
        cls = "zero-parameter-forms/%s" % qual
        if name in built:
            r.add_case("arms", -32, cls, "held", "", {"arms": n})
        else:
            errs = [l for l in out.split("\n") if ("bin/%s.rs" % name) in l and "error" in l]
            r.add_case("arms", -32, cls, "violated", "arm-does-not-compile-for-a-function-without-parameters:%s" % qual.replace(" ", "-").replace('"', ""), {"arms": n, "rustc": (errs or [out[-300:]])[0][:400]})


def run(tier, seed):
    r = core.Run("C08", tier, seed, "exploration", RULE)
    arms = armsgen.parse_arms(os.path.join(core.REPO, "src", "interface", "macros.rs"))
    classified = []
    for i, a in enumerate(arms):
        c = armsgen.classify(a)
        if c is None:
            r.add_case("arms", i, "arm%03d/unrecognised-matcher" % i, "inconclusive", "matcher-not-recognised", {"matcher": a["matcher"][:300]})
        else:
            classified.append((i, c))
    shapes = [0, 1, 2] if tier == "thorough" else [0]
    budgets = [2, 0, 3] if tier == "thorough" else [2]
    proj, exes, errors = armsgen.build_all(classified, shapes)
    zero_param_part(r, classified)
    jobs = []
    for i, c in classified:
        label = "%s/%s/[%s]" % (c["qual"], "unit" if c["unit"] else "non-unit", ",".join(c["opts"]))
        for sh in shapes:
            key = (i, sh)
            if key not in exes:
                err = errors.get(key, "no executable and no error message")
                r.add_case("arms", i, "arm%03d/%s/shape%d/compile" % (i, label, sh), "violated", "arm-does-not-compile:%s/%s/[%s]" % (c["qual"].replace(" ", "-").replace('"', ""), "unit" if c["unit"] else "non-unit", ",".join(c["opts"])), {"rustc": err, "arm": label})
                continue
            for b in budgets:
                jobs.append((i, c, label, sh, b, exes[key]))

    def one(job):
        i, c, label, sh, b, exe = job
        unwinds = "extern" not in c["qual"]
        runs = [(b, x) for x in RUNS + (LONG if unwinds else [])]
        if b == 2:
            runs += VARBUDGET
        results = []
        for bb, spec in runs:
            try:
                p = subprocess.run([exe, str(bb), spec], stdout=subprocess.PIPE, stderr=subprocess.PIPE, text=True, timeout=120)
            except subprocess.TimeoutExpired:
                results.append((spec, "inconclusive", "watchdog", {}))
                continue
            got = armsgen.normalize(p.stdout, i)
            want = armsgen.model_run(c, bb, spec)
            if want and want[-1] == "ABORT":
                ok = got == want[:-1] and p.returncode == -6
                what = "aborting-call"
            else:
                ok = got == want and p.returncode == 0
                what = "trace"
            if ok:
                results.append((spec, "held", "", {"events": len(got)}))
            else:
                # first differing line
                k = 0
                w2 = [x for x in want if x != "ABORT"]
                while k < len(got) and k < len(w2) and got[k] == w2[k]:
                    k += 1
                g = got[k] if k < len(got) else "<end, exit %s>" % core.signame(p.returncode)
                w = w2[k] if k < len(w2) else "<end>"
                results.append((spec, "violated", sig_of(g, w), {"arm": label, "run": spec, "budget": bb, "line": k, "got": g, "want": w, "trace": got[:40], "stderr": p.stderr[-300:], "status": core.signame(p.returncode) if p.returncode else "exit0", "kind": what}))
        return job, results

    with concurrent.futures.ThreadPoolExecutor(max_workers=core.NCPU) as pool:
        for job, results in pool.map(one, jobs):
            i, c, label, sh, b, exe = job
            bad = [x for x in results if x[1] == "violated"]
            inc = [x for x in results if x[1] == "inconclusive"]
            cls = "arm%03d/%s/shape%d/budget%d" % (i, label, sh, b)
            if bad:
                for spec, v, sig, d in bad[:2]:
                    r.add_case("arms", i, cls, "violated", sig, d)
            elif inc:
                r.add_case("arms", i, cls, "inconclusive", "watchdog", {})
            else:
                r.add_case("arms", i, cls, "held", "", {"runs": len(results), "events_compared": sum(x[3].get("events", 0) for x in results)})
    r.observe("arms_found", len(arms))
    r.observe("arms_recognised", len(classified))
    r.observe("programs_compiled", len(exes))
    r.observe("programs_rejected_by_rustc", len([k for k in errors if k not in exes]))
    r.observe("runs_per_program", len(RUNS))
    r.exhaustive = True
    r.assumptions = ["exhaustive over the arms found in the current source; one instantiation shape per arm (three in thorough)",
                     "an arm whose matcher the generator does not recognise is inconclusive, not a violation",
                     "non-unwinding ABIs abort at a panic inside the fake by language rule: for them 'panics' is observed as SIGABRT with the trace flushed before the call"]
    return r.finish({"engine": "arms"})


def sig_of(got, want):
    def k(x):
        return " ".join(x.split(" ")[:3]) if x.startswith(("C ", "X ")) else x.split(" out=")[0]
    return ("trace-differs:want[%s]got[%s]" % (k(want), k(got))).replace(" ", "_")


def replay(path):
    rp = core.load_replay(path)
    print("re-running the whole C08 check (arms are rebuilt from the current source)")
    return run(rp.get("tier", "quick"), rp.get("seed", 1))
