"""C07 — call counting starts from zero for every installation."""
import core

RULE = ("case = a sequence of 2-8 consecutive injector lifetimes that all go through ONE set-up helper containing one fake!(..., times: N) "
        "expression per arm (same source line, same static), lifetime i making c_i in {0..N+2} calls, some lifetimes ending in a caught "
        "panic, some sequences run on freshly spawned threads one after the other; the harness never touches the counter. All sequences of "
        "length <= 3 (quick) / <= 4 (thorough) over N <= 2 exhaustively plus random longer ones; later sequences of the process are later "
        "installations of the same site as well. Variants: an empty injector / a preventer / an unrelated fake between two lifetimes; every second lifetime installing the line on a second function of the same shape; the line evaluated twice within one lifetime on two functions (exactly N calls each); a worker thread calling the target the moment it sees the entry patch of a later installation (budget 1: that call must be admitted). Oracle: the outcome of every call and of scope exit in lifetime i is the function of "
        "(N, c_i) given by the reference model (call j returns iff j < N; exit panics iff c_i != N). distinct = (arm, N, per-lifetime "
        "under/exact/over pattern, threads)")


def run(tier, seed):
    r = core.Run("C07", tier, seed, "exploration", RULE)
    exe = core.build_native()
    nsh = core.NCPU if tier == "thorough" else min(4, core.NCPU)
    cases, sums, notes = core.run_sharded(exe, "c07", seed, tier, nsh, timeout=3000)
    r.add_cases(cases, "native")
    core.also_librel(r, tier, True, lambda exe2: core.run_sharded(exe2, "c07", seed, tier, nsh, timeout=3000))
    r.notes += notes
    r.observe("native", core.sum_dicts(sums))
    r.assumptions = ["two simultaneously live installations built by the same source line share one static by construction of the macro; the property speaks of earlier installations, so that case is not judged"]
    return r.finish({"scenario": "c07"})


def replay(path):
    import subprocess
    rp = core.load_replay(path)
    exe = core.build_native(libopt="librel" in str(rp.get("engine", "")))
    # a sequence is judged in the context of the earlier sequences of its process: replay the prefix
    p = subprocess.run([exe, "c07", "--seed", str(rp["seed"]), "--tier", rp["tier"]], stdout=subprocess.PIPE, text=True)
    bad = '"verdict":"violated"' in p.stdout or p.returncode != 0
    print("replayed the whole sequence list of that seed: %s" % ("violated" if bad else "held"))
    return 1 if bad else 0
