"""C03 — installing and removing fakes touches nothing but the designated entries."""
import core
from props import _hist

RULE = ("case = one injector lifetime of the history workload with a byte-for-byte snapshot of EVERY readable executable mapping of the "
        "process (program text, all shared objects, vdso, synthetic arenas, trampolines) taken before the lifetime, after every install "
        "and after scope exit; every differing byte must lie in [target, target+16) of the target named in that install or in a mapping "
        "the install created; after exit the diff against the initial snapshot must be empty and the set of executable pages identical; "
        "untouched neighbour functions packed at 16-byte pitch around the targets and unnamed targets are called during and after. "
        "distinct = distinct (set of kinds, max repetition, exit path, number of target families) classes")
ASSUME = ["only executable mappings are compared (data such as the GOT is not executable memory)",
          "snapshots are taken while no other harness thread runs"]


def run(tier, seed):
    n = 16 * 4000 if tier == "thorough" else 4000
    r, obs = _hist.run_hist("C03", tier, seed, "c03", 4000, 16 * 4000, RULE, ASSUME)
    r.void_if_unobserved(obs.get("snapshots", 0) > 0 and obs.get("bytes_compared", 0) > 0, "snapshot monitor observed nothing")
    return r.finish({"scenario": "hist", "mon": "c03", "n": n, "batch": 1})


def replay(path):
    return _hist.replay_hist(path, "c03")
