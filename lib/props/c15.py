"""C15 — AArch64 patches decode to a branch to exactly the fake, for all addresses."""
import core
from props import _sim

RULE = ("the UNMODIFIED patch_arm64.rs + arm64_codegenerator.rs + utils.rs are compiled on the host against a simulated memory (Linux and "
        "macOS variants, dev and release) and driven with: every 16-bit value in each of the four chunk positions of the fake address "
        "(4 x 65536, exhaustive per chunk, other chunks random), boundary patterns, random 64-bit fakes; entry displacements: every "
        "word-aligned value within +/-64 words of -128 MiB, 0 and +128 MiB, powers of two up to +/-4 GiB, random inside and outside the "
        "B range; macOS: pc/target pairs with all low-12-bit / page-carry combinations over the ADRP range; both booleans. An independent "
        "A64 interpreter executes the bytes written from the entry: it must arrive at exactly the fake (or set x0 to the boolean and "
        "return) through the trampoline, write only x9-x17 (x0 for the boolean); on the Linux variant a displacement a plain B cannot "
        "express must be refused (panic, no write to the entry); the guard must describe exactly the write made. Every distinct "
        "instruction word judged is cross-checked with llvm-mc. distinct = (variant, profile, batch) classes; evaluations are counted per batch")


def run(tier, seed):
    r = core.Run("C15", tier, seed, "exploration", RULE)
    profiles = ["dev", "release"]
    totals, evals = _sim.run_sim(r, "c15", seed, tier, ["linux", "macos"], profiles, nshards=8 if tier == "thorough" else 4)
    r.exhaustive = False
    r.extra_cov["explanation"] = "exhaustive for each 16-bit chunk value in each chunk position (other chunks random) and for the word-aligned displacements within +/-64 words of the three range points; sampled elsewhere"
    r.void_if_unobserved(evals > 0, "the emitters were never invoked")
    r.assumptions = ["no AArch64 execution is possible here: that hardware executes these bytes as the Arm ARM says is trusted; the trusted decoder base is 'llvm-mc and the interpreter agree on every word judged'",
                     "the trampoline address is what the allocator shim returns (any word-aligned value); on macOS pairs outside the ADRP page range are not judged",
                     "the `dsb sy; isb` of clear_cache is not executed anywhere"]
    return r.finish({"scenario": "c15"})


def replay(path):
    import subprocess, simgen
    rp = core.load_replay(path)
    eng = (rp.get("engine") or "sim/linux/dev").split("/")
    exe, _ = simgen.build(eng[1], eng[2], __import__('props._sim', fromlist=['NEEDS']).NEEDS['c15'])
    p = subprocess.run([exe, "c15", "--seed", str(rp["seed"]), "--tier", rp["tier"], "--only", str(rp["case_index"])], stdout=subprocess.PIPE, text=True)
    print(p.stdout[-2500:])
    return 1 if ('"verdict":"violated"' in p.stdout or p.returncode != 0) else 0
