"""C05 — a panic while fakes are installed still restores, unlocks and never aborts."""
import core

RULE = ("case = one script: body `new; [0-3 pending times-fakes, each satisfied or not]; install A; call A; install B; call B; install C; "
        "call C; drop` with ONE injected panic of kind k at position p, for every p in 0..6 and every k in {none, user panic, fake! rejects "
        "its arguments, fake! called past its budget, signature mismatch (raw and fake!), null target, null fake, will_return_boolean on a "
        "non-bool function, async value of the wrong output type, typed target paired with an unchecked fake, every executable mmap failing, "
        "mprotect failing, user panic with a non-string payload, user panic raised by the returns: expression of a fake! and by the body of a closure "
        "fake (inside the fake's frame), over-call panic caught by the test body with the scope then left normally, user panic while the OS refuses every munmap of the unwind, installation on a page-straddling function while the OS refuses to make its second page writable (whatever the granularity in which the library asks), signature mismatch on a function this injector has already faked (its earlier fake must stay in effect, bytes unchanged), user panic during which a destructor installs one more fake and calls the function, user panic with 80 more fakes live, one more installation while the platform refuses every mprotect to read+execute (works or refuses loudly), a panicking value expression of an async fake contained by the test body, two contained over-budget calls followed by a user panic}, for 10 pending-expectation combinations; run on a worker thread under catch_unwind, hundreds of scripts per "
        "process. Oracle: the scripted body comes back within 30 s (bounded progress); process not aborted; at most one panic raised; panic class as expected for k; refused call made no "
        "mprotect/flush/executable-mmap before refusing and left its target untouched; every pool target's bytes and behaviour original; no "
        "trampoline left (except after an injected mprotect failure: noted); a fresh thread creates, uses and drops an injector and a "
        "preventer within 30 s; so does the very thread whose scope unwound, and (a third of the scripts) a thread that was already blocked on the guard when the panic started. distinct = (position, kind, #pending, #satisfied)")


def run(tier, seed):
    r = core.Run("C05", tier, seed, "fault_enumeration", RULE)
    exe = core.build_native()
    nsh = core.NCPU if tier == "thorough" else min(8, core.NCPU)
    cases, sums, notes = core.run_sharded(exe, "c05", seed, tier, nsh, timeout=3000)
    r.add_cases(cases, "native")
    core.also_librel(r, tier, True, lambda exe2: core.run_sharded(exe2, "c05", seed, tier, nsh, timeout=3000))
    r.notes += notes
    obs = core.sum_dicts(sums)
    r.observe("native", obs)
    r.exhaustive = True
    r.extra_cov["explanation"] = "exhaustive over the enumerated (position x panic kind x pending combination) script space; the targets A, B, C and their install kinds are drawn per seed (16 mixes in thorough)"
    r.void_if_unobserved(obs.get("fresh_thread_probes", 0) > 0, "no post-unwind probe ran")
    r.assumptions = ["only Rust-ABI fakes panic (non-unwinding ABIs abort by language rule and are outside the claim)",
                     "faults (failing mmap / mprotect) are injected on the install path only and disarmed before the unwind continues"]
    if tier == "thorough":
        memcheck(r, exe, seed)
    return r.finish({"scenario": "c05"})


def memcheck(r, exe, seed):
    import os, shutil, re
    vg = shutil.which("valgrind")
    if not vg:
        return
    log = os.path.join(core.BUILD, "runs", "memcheck-c05-%d.log" % os.getpid())
    cases, sums, notes = core.run_child_cases(exe, "c05", seed, "quick", 0, 24, extra={"nosynth": 1}, timeout=2400, prefix=[vg, "--tool=memcheck", "--smc-check=all", "--quiet", "--log-file=" + log])
    errs, txt = 0, ""
    if os.path.exists(log):
        txt = open(log, errors="replace").read()
        errs = len(re.findall(r"^==\d+== (Invalid|Mismatched)", txt, re.M))
        os.remove(log)
    r.add_cases(cases, "native+memcheck")
    r.observe("memcheck", {"cases": len(cases), "error_reports": errs, "notes": notes})
    if errs:
        r.add_case("native+memcheck", -1, "memcheck/report", "violated", "memcheck:error-report", {"log_excerpt": txt[:1500]})
    else:
        r.add_case("native+memcheck", -1, "memcheck/clean", "held", "", {"cases": len(cases)})


def replay(path):
    import subprocess
    rp = core.load_replay(path)
    exe = core.build_native(libopt="librel" in str(rp.get("engine", "")))
    p = subprocess.run([exe, "c05", "--seed", str(rp["seed"]), "--tier", rp["tier"], "--only", str(rp["case_index"])], stdout=subprocess.PIPE, text=True)
    print(p.stdout[-3000:])
    bad = '"verdict":"violated"' in p.stdout or p.returncode != 0
    return 1 if bad else 0
