"""C09 — type-checked installation refuses every structurally different signature."""
import core

RULE = ("family of 24 function-pointer types around `fn(i32, &u8) -> i64`, each differing from it in exactly one respect (one parameter "
        "fewer/more, one parameter type x4, return type x4, & -> &mut, & -> *const, *const -> *mut, parameter order, nested fn types in a "
        "parameter and in the return, unit return, unsafe, extern \"C\", unsafe extern \"C\", unsafe extern \"system\") plus two lifetime "
        "re-spellings; EVERY ordered pair (target type i, replacement type j) through every macro form carrying a type (func! long form, "
        "func!(fn (f)(..) -> r), func!(func_info: ..), unsafe{}/extern forms, closure!, fake! with and without times), plus null target / "
        "null replacement / typed+unchecked mixes per member, plus 20 async output-type pairs. Structural equality is known by "
        "construction. Oracle: accepted iff same class; a refusal is a 'Signature mismatch' or null-pointer panic, raised before any "
        "library mprotect / flush / executable mmap, with the target bytes unchanged. Lifetime-only pairs are run and reported, not judged. "
        "distinct = (form pair, class i, class j)")


def run(tier, seed):
    r = core.Run("C09", tier, seed, "exploration", RULE)
    exe = core.build_native()
    nsh = 4
    cases, sums, notes = core.run_sharded(exe, "c09", seed, tier, nsh, timeout=1800)
    r.add_cases(cases, "native")
    r.notes += notes
    obs = core.sum_dicts(sums)
    lt = obs.pop("lifetime_spelling_pairs_not_judged", [])
    r.observe("native", obs)
    r.observe("lifetime_spelling_pairs_not_judged", sorted(set(map(str, lt if isinstance(lt, list) else [lt])))[:40])
    r.exhaustive = True
    r.assumptions = ["the family is fixed (seed-independent): the check is exhaustive over family x family x macro forms, a sample of the space of all Rust function types",
                     "a wrongly accepted pair is never called"]
    return r.finish({"scenario": "c09"})


def replay(path):
    import subprocess
    rp = core.load_replay(path)
    exe = core.build_native()
    p = subprocess.run([exe, "c09", "--only", str(rp["case_index"])], stdout=subprocess.PIPE, text=True)
    print(p.stdout[-2000:])
    return 1 if ('"verdict":"violated"' in p.stdout or p.returncode != 0) else 0
