"""C09 — type-checked installation refuses every structurally different signature."""
import core

RULE = ("family of 34 function-pointer types around `fn(i32, &u8) -> i64`, each differing from it in exactly one respect (one parameter "
        "fewer/more, one parameter type x4, return type x4, & -> &mut, & -> *const, *const -> *mut, parameter order, nested fn types in a "
        "parameter and in the return, unit return, unsafe, extern \"C\", unsafe extern \"C\", unsafe extern \"system\", and three pairs of types whose names differ only in the module path: ma::Rs / mb::Rs as return, &ma::Cfg / &mb::Cfg as parameter, std::fmt::Result / std::io::Result<()>; Qty<'m'> / Qty<'s'> (char const-generic arguments are spelled with apostrophes, like lifetimes); two 40-element tuple types of > 400 bytes of name that differ only in the middle) plus two lifetime "
        "re-spellings; EVERY ordered pair (target type i, replacement type j) through every macro form carrying a type (func! long form, "
        "func!(fn (f)(..) -> r), func!(func_info: ..), unsafe{}/extern forms, closure!, fake! with and without times), plus null target / "
        "null replacement / typed+unchecked mixes per member, plus an identically typed C-variadic pair (accepted) and a variadic/non-variadic pair (refused), 20 async output-type pairs and 7 hand-written poll functions given to the checked async installer (only `fn() -> Poll<T>` with the right T fits; extra parameter, &mut parameter, unsafe, extern \"C\", other T, closure are refused). After a well-typed pairing of two functions has been accepted, the same two addresses are presented again with other declared types (replacement / target declared unsafe, replacement / target untyped), twice each: still refused, and the well-typed pairing still accepted afterwards. Structural equality is known by "
        "construction. Oracle: accepted iff same class; a refusal is a 'Signature mismatch' or null-pointer panic, raised before any "
        "library mprotect / flush / executable mmap, with the target bytes unchanged. Lifetime-only pairs are run and reported, not judged. "
        "Three little programs built against the tree check the async macros' type argument: the function's own output type is accepted; another type in BOTH async_func! and async_return! must be refused somewhere (today at compile time: not compiling counts as refused; compiling and installing is a violation). Additionally every arm of fake! (parsed from the source, one generated program per arm) is installed on a target declared with "
        "exactly the type written in func_type: it must be accepted. distinct = (form pair, class i, class j) + fake! arms")


def run(tier, seed):
    r = core.Run("C09", tier, seed, "exploration", RULE)
    exe = core.build_native()
    nsh = 4
    cases, sums, notes = core.run_sharded(exe, "c09", seed, tier, nsh, timeout=1800)
    r.add_cases(cases, "native")
    core.also_librel(r, tier, True, lambda exe2: core.run_sharded(exe2, "c09", seed, tier, nsh, timeout=1800))
    r.notes += notes
    obs = core.sum_dicts(sums)
    lt = obs.pop("lifetime_spelling_pairs_not_judged", [])
    r.observe("native", obs)
    r.observe("lifetime_spelling_pairs_not_judged", sorted(set(map(str, lt if isinstance(lt, list) else [lt])))[:40])
    arms_part(r)
    neg_part(r)
    r.exhaustive = True
    r.assumptions = ["the family is fixed (seed-independent): the check is exhaustive over family x family x macro forms, a sample of the space of all Rust function types",
                     "a wrongly accepted pair is never called"]
    return r.finish({"scenario": "c09"})


NEG_PROGRAMS = {
    # (file name) -> (source, what it is, must_compile)
    "async_right_type": ("""use injectorpp::interface::injector::*;
async fn real() -> u64 { 5 }
fn main() {
    let r = std::panic::catch_unwind(|| {
        let mut inj = InjectorPP::new();
        inj.when_called_async(injectorpp::async_func!(real(), u64)).will_return_async(injectorpp::async_return!(7, u64));
    });
    println!("{}", if r.is_err() { "REFUSED-AT-RUNTIME" } else { "ACCEPTED" });
}
""", "control: the function's own output type in both macros", True),
    "async_wrong_type_in_both": ("""use injectorpp::interface::injector::*;
async fn real() -> u64 { 5 }
fn main() {
    let r = std::panic::catch_unwind(|| {
        let mut inj = InjectorPP::new();
        inj.when_called_async(injectorpp::async_func!(real(), u32)).will_return_async(injectorpp::async_return!(7, u32));
    });
    println!("{}", if r.is_err() { "REFUSED-AT-RUNTIME" } else { "ACCEPTED" });
}
""", "async fn returns u64; async_func! and async_return! both say u32", False),
    "async_wrong_type_heap": ("""use injectorpp::interface::injector::*;
async fn real() -> String { String::new() }
fn main() {
    let r = std::panic::catch_unwind(|| {
        let mut inj = InjectorPP::new();
        inj.when_called_async(injectorpp::async_func!(real(), u8)).will_return_async(injectorpp::async_return!(7, u8));
    });
    println!("{}", if r.is_err() { "REFUSED-AT-RUNTIME" } else { "ACCEPTED" });
}
""", "async fn returns String; both macros say u8", False),
}


def neg_part(r):
    """Pairings that must be refused *somewhere*: today the compiler refuses them (the macro asserts the future's
    output type). Each is a little program built against the tree under test: not compiling = refused at compile
    time; compiling and panicking in the installer = refused at run time; compiling and installing = violation."""
    import os, subprocess, shutil
    proj = os.path.join(core.BUILD, "c09-neg")
    os.makedirs(os.path.join(proj, "src", "bin"), exist_ok=True)
    open(os.path.join(proj, "Cargo.toml"), "w").write('[package]\nname = "c09neg"\nversion = "0.0.0"\nedition = "2021"\npublish = false\n[dependencies]\ninjectorpp = { path = "%s" }\n[workspace]\n' % core.REPO)
    lock = os.path.join(core.REPO, "Cargo.lock")
    if os.path.exists(lock):
        shutil.copy(lock, os.path.join(proj, "Cargo.lock"))
    for f in os.listdir(os.path.join(proj, "src", "bin")):
        os.remove(os.path.join(proj, "src", "bin", f))
    for name, (src, _, _) in NEG_PROGRAMS.items():
        open(os.path.join(proj, "src", "bin", name + ".rs"), "w").write(src)
    tdir = os.path.join(core.BUILD, "c09-neg-target")
    for name in NEG_PROGRAMS:
        exe = os.path.join(tdir, "debug", name)
        if os.path.exists(exe):
            os.remove(exe)
    rc, out = core.sh(["cargo", "build", "--offline", "--quiet", "--bins", "--keep-going"], cwd=proj, env=core.env_offline({"CARGO_TARGET_DIR": tdir}), timeout=900)
    results = {}
    for name, (_, what, must) in NEG_PROGRAMS.items():
        exe = os.path.join(tdir, "debug", name)
        if not os.path.exists(exe):
            results[name] = "does-not-compile"
        else:
            try:
                p = subprocess.run([exe], stdout=subprocess.PIPE, stderr=subprocess.PIPE, text=True, timeout=60)
                results[name] = "accepted" if "ACCEPTED" in p.stdout else ("refused-at-run-time" if "REFUSED-AT-RUNTIME" in p.stdout else "crashed:%s" % core.signame(p.returncode))
            except subprocess.TimeoutExpired:
                results[name] = "watchdog"
    r.observe("pairings_that_must_be_refused_somewhere", results)
    if results.get("async_right_type") != "accepted":
        # the control does not behave: the little project is not telling us anything
        r.add_case("neg", -21, "must-be-refused/control", "inconclusive", "control-program-not-accepted", {"results": results, "cargo": out[-400:]})
        return
    r.add_case("neg", -21, "must-be-refused/control", "held", "", {"control": "accepted"})
    for k, name in enumerate(n for n in NEG_PROGRAMS if n != "async_right_type"):
        res = results[name]
        cls = "must-be-refused/" + name
        d = {"what": NEG_PROGRAMS[name][1], "outcome": res}
        if res in ("does-not-compile", "refused-at-run-time"):
            r.add_case("neg", -22 - k, cls, "held", "", d)
        elif res == "accepted":
            r.add_case("neg", -22 - k, cls, "violated", "structurally-different-signature-accepted:async-output-type-not-the-functions-own", d)
        else:
            r.add_case("neg", -22 - k, cls, "inconclusive", "program-ended-unexpectedly", d)


def arms_part(r):
    """Every arm of fake! must hand over a FuncPtr whose signature is the type the user wrote: one generated
    program per arm installs the arm's fake on a target declared with exactly that type."""
    import os, subprocess
    import armsgen
    arms = armsgen.parse_arms(os.path.join(core.REPO, "src", "interface", "macros.rs"))
    classified = [(i, c) for i, c in ((i, armsgen.classify(a)) for i, a in enumerate(arms)) if c is not None]
    try:
        proj, exes, errors = armsgen.build_all(classified, [0])
    except core.HarnessError as e:
        r.add_case("arms", -7, "fake-arms/build", "inconclusive", "arms-build-failed", {"err": str(e)[-300:]})
        return
    n = 0
    for i, c in classified:
        label = "%s/%s/[%s]" % (c["qual"], "unit" if c["unit"] else "non-unit", ",".join(c["opts"]))
        exe = exes.get((i, 0))
        cls = "fake-arm-signature/%03d/%s" % (i, label)
        if not exe:
            r.add_case("arms", i, cls, "inconclusive", "arm-does-not-compile(C08)", {})
            continue
        try:
            p = subprocess.run([exe, "0", ""], stdout=subprocess.PIPE, stderr=subprocess.PIPE, text=True, timeout=60)
        except subprocess.TimeoutExpired:
            r.add_case("arms", i, cls, "inconclusive", "watchdog", {})
            continue
        n += 1
        if "Signature mismatch" in p.stderr or "Signature mismatch" in p.stdout:
            r.add_case("arms", i, cls, "violated", "identical-signature-refused:fake!-arm", {"arm": label, "stderr": p.stderr[-300:]})
        elif "\nD\n" in p.stdout or p.stdout.startswith("L 0\nD"):
            r.add_case("arms", i, cls, "held", "", {})
        else:
            r.add_case("arms", i, cls, "inconclusive", "arm-program-did-not-reach-scope-exit", {"stdout": p.stdout[-200:], "stderr": p.stderr[-200:]})
    r.observe("fake_arms_installed_on_identically_typed_targets", n)


def replay(path):
    import subprocess
    rp = core.load_replay(path)
    exe = core.build_native(libopt="librel" in str(rp.get("engine", "")))
    p = subprocess.run([exe, "c09", "--only", str(rp["case_index"])], stdout=subprocess.PIPE, text=True)
    print(p.stdout[-2000:])
    return 1 if ('"verdict":"violated"' in p.stdout or p.returncode != 0) else 0
