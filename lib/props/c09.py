"""C09 — type-checked installation refuses every structurally different signature."""
import core

RULE = ("family of 34 function-pointer types around `fn(i32, &u8) -> i64`, each differing from it in exactly one respect (one parameter "
        "fewer/more, one parameter type x4, return type x4, & -> &mut, & -> *const, *const -> *mut, parameter order, nested fn types in a "
        "parameter and in the return, unit return, unsafe, extern \"C\", unsafe extern \"C\", unsafe extern \"system\", and three pairs of types whose names differ only in the module path: ma::Rs / mb::Rs as return, &ma::Cfg / &mb::Cfg as parameter, std::fmt::Result / std::io::Result<()>; Qty<'m'> / Qty<'s'> (char const-generic arguments are spelled with apostrophes, like lifetimes); two 40-element tuple types of > 400 bytes of name that differ only in the middle) plus two lifetime "
        "re-spellings; EVERY ordered pair (target type i, replacement type j) through every macro form carrying a type (func! long form, "
        "func!(fn (f)(..) -> r), func!(func_info: ..), unsafe{}/extern forms, closure!, fake! with and without times), plus null target / "
        "null replacement / typed+unchecked mixes per member, plus 20 async output-type pairs and 7 hand-written poll functions given to the checked async installer (only `fn() -> Poll<T>` with the right T fits; extra parameter, &mut parameter, unsafe, extern \"C\", other T, closure are refused). After a well-typed pairing of two functions has been accepted, the same two addresses are presented again with other declared types (replacement / target declared unsafe, replacement / target untyped), twice each: still refused, and the well-typed pairing still accepted afterwards. Structural equality is known by "
        "construction. Oracle: accepted iff same class; a refusal is a 'Signature mismatch' or null-pointer panic, raised before any "
        "library mprotect / flush / executable mmap, with the target bytes unchanged. Lifetime-only pairs are run and reported, not judged. "
        "Additionally every arm of fake! (parsed from the source, one generated program per arm) is installed on a target declared with "
        "exactly the type written in func_type: it must be accepted. distinct = (form pair, class i, class j) + fake! arms")


def run(tier, seed):
    r = core.Run("C09", tier, seed, "exploration", RULE)
    exe = core.build_native()
    nsh = 4
    cases, sums, notes = core.run_sharded(exe, "c09", seed, tier, nsh, timeout=1800)
    r.add_cases(cases, "native")
    core.also_librel(r, tier, True, lambda exe2: core.run_sharded(exe2, "c09", seed, tier, nsh, timeout=1800))
    r.notes += notes
    obs = core.sum_dicts(sums)
    lt = obs.pop("lifetime_spelling_pairs_not_judged", [])
    r.observe("native", obs)
    r.observe("lifetime_spelling_pairs_not_judged", sorted(set(map(str, lt if isinstance(lt, list) else [lt])))[:40])
    arms_part(r)
    r.exhaustive = True
    r.assumptions = ["the family is fixed (seed-independent): the check is exhaustive over family x family x macro forms, a sample of the space of all Rust function types",
                     "a wrongly accepted pair is never called"]
    return r.finish({"scenario": "c09"})


def arms_part(r):
    """Every arm of fake! must hand over a FuncPtr whose signature is the type the user wrote: one generated
    program per arm installs the arm's fake on a target declared with exactly that type."""
    import os, subprocess
    import armsgen
    arms = armsgen.parse_arms(os.path.join(core.REPO, "src", "interface", "macros.rs"))
    classified = [(i, c) for i, c in ((i, armsgen.classify(a)) for i, a in enumerate(arms)) if c is not None]
    try:
        proj, exes, errors = armsgen.build_all(classified, [0])
    except core.HarnessError as e:
        r.add_case("arms", -7, "fake-arms/build", "inconclusive", "arms-build-failed", {"err": str(e)[-300:]})
        return
    n = 0
    for i, c in classified:
        label = "%s/%s/[%s]" % (c["qual"], "unit" if c["unit"] else "non-unit", ",".join(c["opts"]))
        exe = exes.get((i, 0))
        cls = "fake-arm-signature/%03d/%s" % (i, label)
        if not exe:
            r.add_case("arms", i, cls, "inconclusive", "arm-does-not-compile(C08)", {})
            continue
        try:
            p = subprocess.run([exe, "0", ""], stdout=subprocess.PIPE, stderr=subprocess.PIPE, text=True, timeout=60)
        except subprocess.TimeoutExpired:
            r.add_case("arms", i, cls, "inconclusive", "watchdog", {})
            continue
        n += 1
        if "Signature mismatch" in p.stderr or "Signature mismatch" in p.stdout:
            r.add_case("arms", i, cls, "violated", "identical-signature-refused:fake!-arm", {"arm": label, "stderr": p.stderr[-300:]})
        elif "\nD\n" in p.stdout or p.stdout.startswith("L 0\nD"):
            r.add_case("arms", i, cls, "held", "", {})
        else:
            r.add_case("arms", i, cls, "inconclusive", "arm-program-did-not-reach-scope-exit", {"stdout": p.stdout[-200:], "stderr": p.stderr[-200:]})
    r.observe("fake_arms_installed_on_identically_typed_targets", n)


def replay(path):
    import subprocess
    rp = core.load_replay(path)
    exe = core.build_native(libopt="librel" in str(rp.get("engine", "")))
    p = subprocess.run([exe, "c09", "--only", str(rp["case_index"])], stdout=subprocess.PIPE, text=True)
    print(p.stdout[-2000:])
    return 1 if ('"verdict":"violated"' in p.stdout or p.returncode != 0) else 0
