"""Generates and builds the `sim` engine: the UNMODIFIED emitter sources of /repo compiled on the host
against a shim `injector_core::common` (harness/sim/src/injector_core/common.rs)."""
import os
import re
import shutil
import core

COPIED = ["patch_amd64.rs", "patch_arm64.rs", "patch_arm.rs", "arm64_codegenerator.rs", "utils.rs", "patch_trait.rs"]


def generate(dst):
    src_t = os.path.join(core.VERIF, "harness", "sim")
    if os.path.exists(dst):
        shutil.rmtree(dst)
    shutil.copytree(src_t, dst, ignore=shutil.ignore_patterns("target", "Cargo.lock"))
    ic = os.path.join(dst, "src", "injector_core")
    changes = {}
    for f in COPIED:
        p = os.path.join(core.REPO, "src", "injector_core", f)
        if not os.path.exists(p):
            raise core.HarnessError("emitter source %s no longer exists in the tree under test" % f)
        text = open(p).read()
        out = []
        n_cfg = 0
        for line in text.split("\n"):
            if re.match(r'^#!\[cfg\(target_arch\s*=\s*"[a-z0-9_]+"\)\]\s*$', line):
                n_cfg += 1
                continue
            out.append(line)
        t2 = "\n".join(out)
        n_mac = t2.count('target_os = "macos"')
        t2 = t2.replace('target_os = "macos"', "sim_macos")
        changes[f] = {"cfg_lines_dropped": n_cfg, "macos_predicates_renamed": n_mac}
        open(os.path.join(ic, f), "w").write(t2)
    # source files the tree under test has ADDED next to the emitters (helpers they import): copied the same way and
    # declared in the generated mod.rs, so that a refactor that moves code into a new file does not stop the engine
    known = set(COPIED) | {"common.rs", "internal.rs", "linuxapi.rs", "macosapi.rs", "winapi.rs", "mod.rs"}
    extra = sorted(f for f in os.listdir(os.path.join(core.REPO, "src", "injector_core")) if f.endswith(".rs") and f not in known)
    if extra:
        modrs = os.path.join(ic, "mod.rs")
        decl = ""
        for f in extra:
            t2 = open(os.path.join(core.REPO, "src", "injector_core", f)).read()
            t2 = "\n".join(l for l in t2.split("\n") if not re.match(r'^#!\[cfg\(target_arch\s*=\s*"[a-z0-9_]+"\)\]\s*$', l)).replace('target_os = "macos"', "sim_macos")
            open(os.path.join(ic, f), "w").write(t2)
            decl += "pub(crate) mod %s;\n" % f[:-3]
        open(modrs, "a").write(decl)
        changes["extra_source_files_copied"] = extra
    # the real common.rs (PatchGuard, patch_function, ...) as a second, independent module
    rc = os.path.join(dst, "src", "realcore")
    for f in ("common.rs", "linuxapi.rs"):
        p = os.path.join(core.REPO, "src", "injector_core", f)
        if os.path.exists(p):
            t = open(p).read().replace("crate::injector_core::", "crate::realcore::")
            open(os.path.join(rc, f), "w").write(t)
            changes["realcore/" + f] = {"module_path_rewritten": t.count("crate::realcore::")}
    nat = os.path.join(core.VERIF, "harness", "native", "src")
    for f in ["out.rs", "rng.rs", "x86.rs"]:
        shutil.copy(os.path.join(nat, f), os.path.join(dst, "src", f))
    lock = os.path.join(core.REPO, "Cargo.lock")
    if os.path.exists(lock):
        shutil.copy(lock, os.path.join(dst, "Cargo.lock"))
    return changes


EMITTERS = ("amd64", "arm64", "arm", "realcore")


def build(variant, profile, need=EMITTERS):
    """variant: linux|macos, profile: dev|release -> (executable path, source transformations).
    `need`: the emitters the scenario drives. The engine is built with all three; if that fails (an emitter's
    interface to `common` changed) it is rebuilt with only the needed ones, so that e.g. a change to the amd64
    patcher does not take the AArch64 checks down with it."""
    def attempt(leave_out):
        tag = "sim-%s%s" % (variant, "".join("-no" + e for e in leave_out))
        srcdir = os.path.join(core.BUILD, tag + "-src")
        with core.Lock(tag):
            changes = generate(srcdir)
            cmd = ["cargo", "build", "--offline", "--quiet"] + (["--release"] if profile == "release" else [])
            extra = {"CARGO_TARGET_DIR": os.path.join(core.BUILD, tag)}
            flags = (["--cfg sim_macos"] if variant == "macos" else []) + ["--cfg sim_no_" + e for e in leave_out]
            if flags:
                extra["RUSTFLAGS"] = " ".join(flags)
            rc, out = core.sh(cmd, cwd=srcdir, env=core.env_offline(extra), timeout=1800)
        return rc, out, os.path.join(core.BUILD, tag, "release" if profile == "release" else "debug", "vsim"), changes
    rc, out, exe, changes = attempt(())
    if rc != 0:
        leave_out = tuple(e for e in EMITTERS if e not in need)
        if leave_out:
            rc2, out2, exe, changes = attempt(leave_out)
            if rc2 == 0:
                changes = dict(changes)
                changes["emitters_left_out_because_they_no_longer_build_against_the_shim"] = list(leave_out)
                return exe, changes
        raise core.HarnessError("sim engine does not build against the tree under test (emitter interface changed?):\n" + out[-3000:])
    return exe, changes


def llvm_crosscheck(words_file):
    """Disassemble every distinct instruction word the interpreters judged with llvm-mc and compare with
    the interpreter's own decoding. Returns (checked, agreements, disagreements[list], skipped)."""
    import subprocess
    mc = shutil.which("llvm-mc-14") or shutil.which("llvm-mc")
    if not mc or not os.path.exists(words_file):
        return 0, 0, [], "llvm-mc not available" if not mc else "no words file"
    by = {}
    for line in open(words_file):
        parts = line.rstrip("\n").split(" ", 2)
        if len(parts) == 3:
            by.setdefault(parts[0], []).append((int(parts[1], 16), parts[2]))
    triples = {"aarch64": "aarch64", "a32": "armv7", "t16": "thumbv7", "t32": "thumbv7"}
    checked = agree = 0
    bad = []
    for arch, lst in by.items():
        lst = lst[:120000]
        inp = []
        for w, _ in lst:
            if arch == "t16":
                bs = [w & 0xff, (w >> 8) & 0xff]
            elif arch == "t32":
                h1, h2 = (w >> 16) & 0xffff, w & 0xffff
                bs = [h1 & 0xff, h1 >> 8, h2 & 0xff, h2 >> 8]
            else:
                bs = [w & 0xff, (w >> 8) & 0xff, (w >> 16) & 0xff, (w >> 24) & 0xff]
            inp.append(" ".join("0x%02x" % b for b in bs))
        p = subprocess.run([mc, "--disassemble", "--triple=" + triples[arch]], input="\n".join(inp) + "\n", stdout=subprocess.PIPE, stderr=subprocess.PIPE, text=True, timeout=600)
        outl = [l.strip() for l in p.stdout.split("\n") if l.strip() and not l.strip().startswith(".")]
        if len(outl) != len(lst):
            bad.append("%s: llvm-mc produced %d lines for %d words (%s)" % (arch, len(outl), len(lst), p.stderr[:200]))
            continue
        for (w, mine), theirs in zip(lst, outl):
            checked += 1
            if same_insn(arch, mine, theirs):
                agree += 1
            elif len(bad) < 10:
                bad.append("%s %08x: interpreter `%s` vs llvm `%s`" % (arch, w, mine, theirs))
    return checked, agree, bad, ""


def _num(s):
    s = s.strip().lstrip("#")
    neg = s.startswith("-")
    s = s.lstrip("-")
    v = int(s, 16) if s.lower().startswith("0x") else int(s)
    return -v if neg else v


def norm(text):
    t = text.replace("\t", " ").lower()
    t = re.sub(r"\s+", " ", t).strip()
    return t


def same_insn(arch, mine, theirs):
    """semantic comparison of the interpreter's canonical text with LLVM's text"""
    m, t = norm(mine), norm(theirs)
    t = t.split("//")[0].split("@")[0].strip()
    try:
        if arch == "aarch64":
            mm = re.match(r"(movz|movk|movn) ([xw])(\d+), #(\d+), lsl #(\d+)", m)
            if mm:
                op, rw, rd, imm, sh = mm.group(1), mm.group(2), int(mm.group(3)), int(mm.group(4)), int(mm.group(5))
                tt = re.match(r"(movz|movk|movn|mov) ([xw])(\d+), #(-?[0-9a-fx]+)(?:, lsl #(\d+))?", t)
                if not tt or tt.group(2) != rw or int(tt.group(3)) != rd:
                    return False
                if tt.group(1) == "mov":
                    v = _num(tt.group(4)) & (0xFFFFFFFFFFFFFFFF if rw == "x" else 0xFFFFFFFF)
                    mask = 0xFFFFFFFFFFFFFFFF if rw == "x" else 0xFFFFFFFF
                    if op == "movz":
                        return v == (imm << sh) & mask
                    if op == "movn":
                        return v == (~(imm << sh)) & mask
                    return False
                return tt.group(1) == op and _num(tt.group(4)) == imm and int(tt.group(5) or 0) == sh
            mm = re.match(r"(adrp|adr) x(\d+), #(-?\d+)", m)
            if mm:
                tt = re.match(r"(adrp|adr) x(\d+), #(-?[0-9a-fx]+)", t)
                return bool(tt) and tt.group(1) == mm.group(1) and tt.group(2) == mm.group(2) and _num(tt.group(3)) == int(mm.group(3))
            mm = re.match(r"add x(\d+), x(\d+), #(\d+), lsl #(\d+)", m)
            if mm:
                tt = re.match(r"add x(\d+), x(\d+), #([0-9a-fx]+)(?:, lsl #(\d+))?", t)
                return bool(tt) and tt.group(1) == mm.group(1) and tt.group(2) == mm.group(2) and _num(tt.group(3)) == int(mm.group(3)) and int(tt.group(4) or 0) == int(mm.group(4))
            mm = re.match(r"b #(-?\d+)", m)
            if mm:
                tt = re.match(r"b #(-?[0-9a-fx]+)", t)
                return bool(tt) and _num(tt.group(1)) == int(mm.group(1))
            mm = re.match(r"ldr x(\d+), #(-?\d+)", m)
            if mm:
                tt = re.match(r"ldr x(\d+), #(-?[0-9a-fx]+)", t)
                return bool(tt) and tt.group(1) == mm.group(1) and _num(tt.group(2)) == int(mm.group(2))
            if m.startswith("br x"):
                return t == m
            if m.startswith("ret x"):
                return t == m or (m == "ret x30" and t == "ret")
            if m in ("nop",):
                return t == "nop"
            if m == "bti":
                return t.startswith("bti") or t.startswith("hint")
            return False
        # 32-bit ARM
        mm = re.match(r"(ldr(?:\.w)?) r(\d+), \[pc, #(-?\d+)\]", m)
        if mm:
            tt = re.match(r"(ldr(?:\.w)?) (r\d+|pc|sb|sl|fp|ip|sp|lr), \[pc(?:, #(-?[0-9a-fx]+))?\]", t)
            if not tt:
                return False
            return regnum(tt.group(2)) == int(mm.group(2)) and _num(tt.group(3) or "0") == int(mm.group(3))
        mm = re.match(r"bx r(\d+)", m)
        if mm:
            tt = re.match(r"bx (\S+)", t)
            return bool(tt) and regnum(tt.group(1)) == int(mm.group(1))
        mm = re.match(r"mov r(\d+), r(\d+)", m)
        if mm:
            tt = re.match(r"mov (\S+), (\S+)", t)
            return bool(tt) and regnum(tt.group(1).rstrip(",")) == int(mm.group(1)) and regnum(tt.group(2)) == int(mm.group(2))
        mm = re.match(r"(movw|movt) r(\d+), #(\d+)", m)
        if mm:
            tt = re.match(r"(movw|movt) (\S+), #([0-9a-fx]+)", t)
            return bool(tt) and tt.group(1) == mm.group(1) and regnum(tt.group(2).rstrip(",")) == int(mm.group(2)) and _num(tt.group(3)) == int(mm.group(3))
        if m in ("nop", "nop.w"):
            return t in ("nop", "nop.w")
        mm = re.match(r"(b|b\.w) #(-?\d+)", m)
        if mm:
            tt = re.match(r"(b|b\.w) #(-?[0-9a-fx]+)", t)
            return bool(tt) and _num(tt.group(2)) == int(mm.group(2))
        return False
    except Exception:
        return False


def regnum(r):
    r = r.strip().rstrip(",")
    alias = {"sb": 9, "sl": 10, "fp": 11, "ip": 12, "sp": 13, "lr": 14, "pc": 15}
    if r in alias:
        return alias[r]
    return int(r[1:])
