//! Shim for `crate::injector_core::common`: the same names the patchers import, operating on a
//! simulated sparse memory and logging every call.
use std::cell::RefCell;
use std::collections::BTreeMap;
use std::ptr::NonNull;

pub(crate) struct FuncPtrInternal(NonNull<()>);
impl FuncPtrInternal {
    pub(crate) unsafe fn new(non_null_ptr: NonNull<()>) -> Self {
        FuncPtrInternal(non_null_ptr)
    }
    pub(crate) fn as_ptr(&self) -> *const () {
        self.0.as_ptr()
    }
}

#[derive(Clone, Debug)]
pub enum Ev {
    Alloc { src: u64, size: usize, ret: u64 },
    Read { addr: u64, len: usize },
    Inject { dest: u64, bytes: Vec<u8> },
    Patch { func: u64, bytes: Vec<u8> },
    Guard { func: u64, original: Vec<u8>, patch_size: usize, jit: u64, jit_size: usize },
}

#[derive(Default)]
pub struct Sim {
    pub mem: BTreeMap<u64, u8>,
    pub next_jit: u64,
    pub log: Vec<Ev>,
    pub salt: u64,
}

thread_local! {
    pub static SIM: RefCell<Sim> = RefCell::new(Sim::default());
}

fn h(mut x: u64) -> u64 {
    x = (x ^ (x >> 30)).wrapping_mul(0xBF58_476D_1CE4_E5B9);
    x = (x ^ (x >> 27)).wrapping_mul(0x94D0_49BB_1331_11EB);
    x ^ (x >> 31)
}

impl Sim {
    pub fn reset(&mut self, next_jit: u64, salt: u64) {
        self.mem.clear();
        self.log.clear();
        self.next_jit = next_jit;
        self.salt = salt;
    }
    /// unwritten memory has deterministic pseudo-random "original" content
    pub fn byte(&self, a: u64) -> u8 {
        match self.mem.get(&a) {
            Some(b) => *b,
            None => (h(a ^ self.salt) & 0xff) as u8,
        }
    }
    pub fn original_byte(&self, a: u64) -> u8 {
        (h(a ^ self.salt) & 0xff) as u8
    }
    pub fn read(&self, a: u64, n: usize) -> Vec<u8> {
        (0..n as u64).map(|i| self.byte(a.wrapping_add(i))).collect()
    }
    pub fn write(&mut self, a: u64, b: &[u8]) {
        for (i, v) in b.iter().enumerate() {
            self.mem.insert(a.wrapping_add(i as u64), *v);
        }
    }
}

pub(crate) fn allocate_jit_memory(src: &FuncPtrInternal, code_size: usize) -> *mut u8 {
    SIM.with(|s| {
        let mut s = s.borrow_mut();
        let ret = s.next_jit;
        s.log.push(Ev::Alloc { src: src.as_ptr() as u64, size: code_size, ret });
        ret as *mut u8
    })
}

pub(crate) unsafe fn read_bytes(ptr: *const u8, len: usize) -> Vec<u8> {
    SIM.with(|s| {
        let mut s = s.borrow_mut();
        s.log.push(Ev::Read { addr: ptr as u64, len });
        s.read(ptr as u64, len)
    })
}

pub(crate) unsafe fn inject_asm_code(asm_code: &[u8], dest: *mut u8) {
    SIM.with(|s| {
        let mut s = s.borrow_mut();
        s.log.push(Ev::Inject { dest: dest as u64, bytes: asm_code.to_vec() });
        s.write(dest as u64, asm_code);
    })
}

pub(crate) unsafe fn patch_function(func: *mut u8, patch: &[u8]) {
    SIM.with(|s| {
        let mut s = s.borrow_mut();
        s.log.push(Ev::Patch { func: func as u64, bytes: patch.to_vec() });
        s.write(func as u64, patch);
    })
}

pub(crate) struct PatchGuard {
    pub func_ptr: u64,
    pub original_bytes: Vec<u8>,
    pub patch_size: usize,
    pub jit_memory: u64,
    pub jit_size: usize,
}

impl PatchGuard {
    pub(crate) fn new(func_ptr: *mut u8, original_bytes: Vec<u8>, patch_size: usize, jit_memory: *mut u8, jit_size: usize) -> Self {
        SIM.with(|s| {
            s.borrow_mut().log.push(Ev::Guard { func: func_ptr as u64, original: original_bytes.clone(), patch_size, jit: jit_memory as u64, jit_size });
        });
        PatchGuard { func_ptr: func_ptr as u64, original_bytes, patch_size, jit_memory: jit_memory as u64, jit_size }
    }
}
