// The files patch_amd64.rs, patch_arm64.rs, patch_arm.rs, arm64_codegenerator.rs, utils.rs and
// patch_trait.rs next to this one are copied UNMODIFIED from /repo/src/injector_core at check time,
// (an emitter that no longer builds against the shim can be left out with --cfg sim_no_amd64 / sim_no_arm64 /
// sim_no_arm: the scenarios that do not need it still run)
// except that the leading `#![cfg(target_arch = ...)]` line is dropped and the predicate
// `target_os = "macos"` is renamed to the cfg `sim_macos`. common.rs is the shim.
#![allow(dead_code)]
#![allow(unused_imports)]
#[cfg(not(sim_no_arm64))]
pub(crate) mod arm64_codegenerator;
pub(crate) mod common;
#[cfg(not(sim_no_amd64))]
pub(crate) mod patch_amd64;
#[cfg(not(sim_no_arm))]
pub(crate) mod patch_arm;
#[cfg(not(sim_no_arm64))]
pub(crate) mod patch_arm64;
pub(crate) mod patch_trait;
pub(crate) mod utils;
