// The files patch_amd64.rs, patch_arm64.rs, patch_arm.rs, arm64_codegenerator.rs, utils.rs and
// patch_trait.rs next to this one are copied UNMODIFIED from /repo/src/injector_core at check time,
// except that the leading `#![cfg(target_arch = ...)]` line is dropped and the predicate
// `target_os = "macos"` is renamed to the cfg `sim_macos`. common.rs is the shim.
#![allow(dead_code)]
#![allow(unused_imports)]
pub(crate) mod arm64_codegenerator;
pub(crate) mod common;
pub(crate) mod patch_amd64;
pub(crate) mod patch_arm;
pub(crate) mod patch_arm64;
pub(crate) mod patch_trait;
pub(crate) mod utils;
