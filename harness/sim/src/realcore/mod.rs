// common.rs and linuxapi.rs next to this file are copied UNMODIFIED from /repo/src/injector_core at check time
// (only the path `crate::injector_core::` is rewritten to `crate::realcore::`): the REAL PatchGuard, patch_function,
// inject_asm_code and clear_cache, running on real host memory. Used by the scenario `c02guard` to exercise guards
// the x86-64 patcher never creates (no trampoline: the 32-bit ARM case). Left out with --cfg sim_no_realcore.
#![allow(dead_code)]
#![allow(unused_imports)]
#![allow(clippy::all)]
pub(crate) mod common;
pub(crate) mod linuxapi;
