//! M4 (A64 part) — an interpreter for the AArch64 instructions a redirect can sensibly use, written
//! from the Arm ARM (C6.2), not from the emitter: MOVZ/MOVK/MOVN, ADR/ADRP, ADD (immediate),
//! LDR (literal), B, BR, RET, NOP/BTI hints. Unknown words end the walk as Unknown (inconclusive).
use std::collections::{BTreeMap, BTreeSet};

#[derive(Debug, Clone, PartialEq)]
pub enum End {
    /// branch (B/BR) to this address left the patched code
    Arrived(u64),
    Ret,
    Unknown { at: u64, word: u32 },
    TooLong,
}

pub struct Walk {
    pub end: End,
    pub written: BTreeSet<u8>,
    pub regs: BTreeMap<u8, u64>,
    /// (address, word, canonical text) of every instruction executed
    pub path: Vec<(u64, u32, String)>,
    /// true if a BR used a register whose value is only partly known (MOVK without a base)
    pub partial: bool,
}

fn sx(v: u64, bits: u32) -> i64 {
    let sh = 64 - bits;
    ((v << sh) as i64) >> sh
}

/// canonical text of one word (also used for the cross-check with LLVM's disassembler)
pub fn canon(word: u32, pc: u64) -> Option<String> {
    let w = word;
    let rd = (w & 31) as u8;
    if w == 0xD503201F {
        return Some("nop".into());
    }
    if w & 0xFFFFFF3F == 0xD503241F {
        return Some("bti".into());
    }
    if w & 0x7F800000 == 0x52800000 || w & 0x7F800000 == 0x72800000 || w & 0x7F800000 == 0x12800000 {
        let sf = w >> 31;
        let opc = (w >> 29) & 3;
        let hw = (w >> 21) & 3;
        let imm = (w >> 5) & 0xFFFF;
        if sf == 0 && hw > 1 {
            return None;
        }
        let name = match opc {
            0 => "movn",
            2 => "movz",
            3 => "movk",
            _ => return None,
        };
        return Some(format!("{} {}{}, #{}, lsl #{}", name, if sf == 1 { "x" } else { "w" }, rd, imm, hw * 16));
    }
    if w & 0x9F000000 == 0x90000000 || w & 0x9F000000 == 0x10000000 {
        let immlo = ((w >> 29) & 3) as u64;
        let immhi = ((w >> 5) & 0x7FFFF) as u64;
        let imm = sx((immhi << 2) | immlo, 21);
        if w >> 31 == 1 {
            return Some(format!("adrp x{}, #{}", rd, imm << 12));
        }
        let _ = pc;
        return Some(format!("adr x{}, #{}", rd, imm));
    }
    if w & 0xFF800000 == 0x91000000 {
        let sh = (w >> 22) & 1;
        let imm = (w >> 10) & 0xFFF;
        let rn = (w >> 5) & 31;
        return Some(format!("add x{}, x{}, #{}, lsl #{}", rd, rn, imm, sh * 12));
    }
    if w & 0xFF000000 == 0x58000000 {
        let imm = sx(((w >> 5) & 0x7FFFF) as u64, 19) << 2;
        return Some(format!("ldr x{}, #{}", rd, imm));
    }
    if w & 0xFC000000 == 0x14000000 {
        let imm = sx((w & 0x03FF_FFFF) as u64, 26) << 2;
        return Some(format!("b #{}", imm));
    }
    if w & 0xFFFFFC1F == 0xD61F0000 {
        return Some(format!("br x{}", (w >> 5) & 31));
    }
    if w & 0xFFFFFC1F == 0xD65F0000 {
        return Some(format!("ret x{}", (w >> 5) & 31));
    }
    None
}

/// Execute from `entry` over memory `read32`. The walk ends when control leaves via BR/RET or when a
/// B lands on `stop_at` (the fake) — a B to anywhere else is followed.
pub fn walk(entry: u64, stop_at: u64, read32: &dyn Fn(u64) -> u32, read64: &dyn Fn(u64) -> u64, is_patched: &dyn Fn(u64) -> bool) -> Walk {
    let mut pc = entry;
    let mut regs: BTreeMap<u8, u64> = BTreeMap::new();
    // which registers hold a fully known value
    // per register: bit k set = 16-bit chunk k holds a known value
    let mut known: BTreeMap<u8, u8> = BTreeMap::new();
    let mut written = BTreeSet::new();
    let mut path = Vec::new();
    let mut partial = false;
    for _ in 0..64 {
        if pc == stop_at && !path.is_empty() {
            return Walk { end: End::Arrived(pc), written, regs, path, partial };
        }
        if !path.is_empty() && !is_patched(pc) {
            // control left the bytes this install wrote
            return Walk { end: End::Arrived(pc), written, regs, path, partial };
        }
        let w = read32(pc);
        let text = match canon(w, pc) {
            Some(t) => t,
            None => return Walk { end: End::Unknown { at: pc, word: w }, written, regs, path, partial },
        };
        path.push((pc, w, text));
        let rd = (w & 31) as u8;
        if w == 0xD503201F || w & 0xFFFFFF3F == 0xD503241F {
            pc = pc.wrapping_add(4);
            continue;
        }
        if w & 0x7F800000 == 0x52800000 || w & 0x7F800000 == 0x72800000 || w & 0x7F800000 == 0x12800000 {
            let sf = w >> 31;
            let opc = (w >> 29) & 3;
            let sh = ((w >> 21) & 3) * 16;
            let imm = ((w >> 5) & 0xFFFF) as u64;
            let mask = if sf == 1 { u64::MAX } else { 0xFFFF_FFFF };
            match opc {
                2 => {
                    regs.insert(rd, (imm << sh) & mask);
                    known.insert(rd, 0xF);
                }
                0 => {
                    regs.insert(rd, !(imm << sh) & mask);
                    known.insert(rd, 0xF);
                }
                _ => {
                    let old = regs.get(&rd).cloned().unwrap_or(0);
                    let v = (old & !(0xFFFFu64 << sh)) | (imm << sh);
                    regs.insert(rd, v & mask);
                    let k = known.get(&rd).cloned().unwrap_or(0) | (1 << (sh / 16)) | if sf == 0 { 0xC } else { 0 };
                    known.insert(rd, k);
                }
            }
            if rd != 31 {
                written.insert(rd);
            }
            pc = pc.wrapping_add(4);
            continue;
        }
        if w & 0x9F000000 == 0x90000000 || w & 0x9F000000 == 0x10000000 {
            let immlo = ((w >> 29) & 3) as u64;
            let immhi = ((w >> 5) & 0x7FFFF) as u64;
            let imm = sx((immhi << 2) | immlo, 21);
            let v = if w >> 31 == 1 { (pc & !0xFFF).wrapping_add((imm << 12) as u64) } else { pc.wrapping_add(imm as u64) };
            regs.insert(rd, v);
            known.insert(rd, 0xF);
            written.insert(rd);
            pc = pc.wrapping_add(4);
            continue;
        }
        if w & 0xFF800000 == 0x91000000 {
            let sh = ((w >> 22) & 1) * 12;
            let imm = ((w >> 10) & 0xFFF) as u64;
            let rn = ((w >> 5) & 31) as u8;
            if known.get(&rn).cloned().unwrap_or(0) != 0xF {
                return Walk { end: End::Unknown { at: pc, word: w }, written, regs, path, partial };
            }
            let v = regs[&rn].wrapping_add(imm << sh);
            regs.insert(rd, v);
            known.insert(rd, 0xF);
            written.insert(rd);
            pc = pc.wrapping_add(4);
            continue;
        }
        if w & 0xFF000000 == 0x58000000 {
            let imm = sx(((w >> 5) & 0x7FFFF) as u64, 19) << 2;
            let v = read64(pc.wrapping_add(imm as u64));
            regs.insert(rd, v);
            known.insert(rd, 0xF);
            written.insert(rd);
            pc = pc.wrapping_add(4);
            continue;
        }
        if w & 0xFC000000 == 0x14000000 {
            let imm = sx((w & 0x03FF_FFFF) as u64, 26) << 2;
            pc = pc.wrapping_add(imm as u64);
            continue;
        }
        if w & 0xFFFFFC1F == 0xD61F0000 {
            let rn = ((w >> 5) & 31) as u8;
            if known.get(&rn).cloned().unwrap_or(0) != 0xF {
                partial = true;
            }
            let dest = regs.get(&rn).cloned().unwrap_or(0);
            if partial {
                return Walk { end: End::Arrived(dest), written, regs, path, partial };
            }
            pc = dest;
            continue;
        }
        if w & 0xFFFFFC1F == 0xD65F0000 {
            return Walk { end: End::Ret, written, regs, path, partial };
        }
    }
    Walk { end: End::TooLong, written, regs, path, partial }
}
