//! vsim — the simulation engine. The UNMODIFIED emitter sources of /repo (patch_amd64.rs,
//! patch_arm64.rs, patch_arm.rs, arm64_codegenerator.rs, utils.rs, patch_trait.rs) are compiled on
//! the host against a shim `injector_core::common` that operates on a simulated sparse memory and
//! logs every call. Independent interpreters (a64.rs, arm32.rs, x86.rs) execute the bytes the real
//! emitters wrote and judge where control goes and which registers are written.
#![allow(clippy::all)]
#![allow(dead_code)]

mod a64;
mod arm32;
mod injector_core;
#[cfg(not(sim_no_realcore))]
mod realcore;
mod out;
mod rng;
mod x86;

use injector_core::common::{Ev, FuncPtrInternal, SIM};
#[cfg(not(sim_no_amd64))]
use injector_core::patch_amd64::PatchAmd64;
#[cfg(not(sim_no_arm))]
use injector_core::patch_arm::PatchArm;
#[cfg(not(sim_no_arm64))]
use injector_core::patch_arm64::PatchArm64;
use injector_core::patch_trait::PatchTrait;
use out::{Verdict, J};
use rng::Rng;
use std::collections::{BTreeMap, BTreeSet};
use std::ptr::NonNull;

const MACOS: bool = cfg!(sim_macos);

fn fpi(a: u64) -> FuncPtrInternal {
    unsafe { FuncPtrInternal::new(NonNull::new(a as usize as *mut ()).expect("non-null")) }
}

#[derive(Clone, Copy, PartialEq, Debug)]
enum Arch {
    Arm64,
    Arm,
    Amd64,
}

/// run one install through the real emitter; Ok(()) or the panic message
fn install(arch: Arch, src: u64, jit: u64, fake: u64, boolean: Option<bool>, salt: u64) -> Result<(), String> {
    SIM.with(|s| s.borrow_mut().reset(jit, salt));
    let r = std::panic::catch_unwind(|| {
        let s = fpi(src);
        match (arch, boolean) {
            #[cfg(not(sim_no_arm64))]
            (Arch::Arm64, None) => drop(PatchArm64::replace_function_with_other_function(s, fpi(fake))),
            #[cfg(not(sim_no_arm64))]
            (Arch::Arm64, Some(b)) => drop(PatchArm64::replace_function_return_boolean(s, b)),
            #[cfg(not(sim_no_arm))]
            (Arch::Arm, None) => drop(PatchArm::replace_function_with_other_function(s, fpi(fake))),
            #[cfg(not(sim_no_arm))]
            (Arch::Arm, Some(b)) => drop(PatchArm::replace_function_return_boolean(s, b)),
            #[cfg(not(sim_no_amd64))]
            (Arch::Amd64, None) => drop(PatchAmd64::replace_function_with_other_function(s, fpi(fake))),
            #[cfg(not(sim_no_amd64))]
            (Arch::Amd64, Some(b)) => drop(PatchAmd64::replace_function_return_boolean(s, b)),
            #[allow(unreachable_patterns)]
            _ => {
                // an emitter that was left out of this build (it no longer compiles against the shim) was asked for:
                // nothing can be said; the scenarios only run with the emitters they need
                eprintln!("HARNESS-ERROR emitter for {:?} is not part of this build", arch);
                let _ = (s, fake, boolean);
                std::process::exit(2);
            }
        }
    });
    r.map_err(|p| {
        if let Some(s) = p.downcast_ref::<&str>() {
            s.to_string()
        } else if let Some(s) = p.downcast_ref::<String>() {
            s.clone()
        } else {
            "panic".into()
        }
    })
}

fn log() -> Vec<Ev> {
    SIM.with(|s| s.borrow().log.clone())
}
fn rd8(a: u64) -> u8 {
    SIM.with(|s| s.borrow().byte(a))
}
fn rd32(a: u64) -> u32 {
    u32::from_le_bytes([rd8(a), rd8(a.wrapping_add(1)), rd8(a.wrapping_add(2)), rd8(a.wrapping_add(3))])
}
fn rd64(a: u64) -> u64 {
    rd32(a) as u64 | ((rd32(a.wrapping_add(4)) as u64) << 32)
}
fn written_here(a: u64) -> bool {
    SIM.with(|s| s.borrow().mem.contains_key(&a))
}
fn orig(a: u64, n: usize) -> Vec<u8> {
    SIM.with(|s| (0..n as u64).map(|i| s.borrow().original_byte(a.wrapping_add(i))).collect())
}

/// C02/C03 bookkeeping part, shared by all back ends: the guard must describe exactly the write
/// that was made to the entry: same address, patch_size == bytes written, saved bytes == pre-image.
fn check_guard(entry: u64) -> Result<(u64, usize), String> {
    let lg = log();
    let patches: Vec<(u64, Vec<u8>)> = lg.iter().filter_map(|e| if let Ev::Patch { func, bytes } = e { Some((*func, bytes.clone())) } else { None }).collect();
    let guards: Vec<(u64, Vec<u8>, usize, u64, usize)> = lg.iter().filter_map(|e| if let Ev::Guard { func, original, patch_size, jit, jit_size } = e { Some((*func, original.clone(), *patch_size, *jit, *jit_size)) } else { None }).collect();
    if patches.len() != 1 {
        return Err(format!("{} writes to function entries", patches.len()));
    }
    if guards.len() != 1 {
        return Err(format!("{} guards created", guards.len()));
    }
    let (pa, pb) = &patches[0];
    let (ga, go, gs, _gj, _gjs) = &guards[0];
    if *pa != entry {
        return Err(format!("patch written at {:#x}, entry is {:#x}", pa, entry));
    }
    if ga != pa {
        return Err(format!("guard restores {:#x} but the patch was written at {:#x}", ga, pa));
    }
    if *gs != pb.len() {
        return Err(format!("guard restores {} bytes but {} were overwritten", gs, pb.len()));
    }
    if go.len() < *gs || go[..*gs] != orig(*pa, *gs)[..] {
        return Err("saved bytes are not the pre-image of the overwritten range".into());
    }
    // every write of the install: entry range or the trampoline it was given
    Ok((*pa, pb.len()))
}

struct Batch {
    evals: u64,
    refused: u64,
    /// first witness per distinct failure signature (a known finding must not hide a different one)
    viols: BTreeMap<String, (J, u64)>,
    unknown: u64,
}
impl Batch {
    fn new() -> Batch {
        Batch { evals: 0, refused: 0, viols: BTreeMap::new(), unknown: 0 }
    }
    fn fail(&mut self, sig: &str, d: J) {
        let e = self.viols.entry(sig.to_string()).or_insert((d, 0));
        e.1 += 1;
    }
    fn emit(self, idx: u64, class: &str, d: J) {
        if self.unknown > 0 && self.unknown * 2 <= self.evals {
            // some (not most) cases met an encoding the interpreter does not know: say so
            out::outcome(idx, &format!("{}/unknown-encodings", class), Verdict::Inconclusive, "decoder-does-not-know-the-encoding", &J::new().n("cases", self.unknown));
        }
        if self.viols.is_empty() {
            if self.unknown * 2 > self.evals {
                out::outcome(idx, class, Verdict::Inconclusive, "decoder-does-not-know-the-encoding", &d);
            } else {
                out::outcome(idx, class, Verdict::Held, "", &d);
            }
        } else {
            for (sig, (w, n)) in self.viols {
                out::outcome(idx, class, Verdict::Violated, &sig, &d.clone().n("cases_with_this_signature", n).o("witness", w));
            }
        }
    }
}

struct Words {
    seen: BTreeSet<(String, u32, String)>,
}

// ===================================================================================== C15
fn b_in_range(d: i128) -> bool {
    d % 4 == 0 && d >= -(1i128 << 27) && d <= (1i128 << 27) - 4
}

fn c15_one(b: &mut Batch, words: &mut Words, src: u64, jit: u64, fake: u64, boolean: Option<bool>, salt: u64) {
    // entry and trampoline are user-space addresses (a generator that subtracts pages from a very low entry
    // wraps below zero: such a pair does not exist)
    if jit >> 47 != 0 || src >> 47 != 0 || jit == 0 {
        return;
    }
    let d = jit as i128 - src as i128;
    if MACOS {
        // the macOS long form reaches +-4 GiB by page: pairs whose page difference does not fit the
        // 21-bit ADRP immediate are outside the claim (the macOS allocator stays within +-2 GiB)
        let pd = (jit >> 12) as i128 - (src >> 12) as i128;
        if pd < -(1 << 20) || pd >= (1 << 20) {
            return;
        }
    }
    b.evals += 1;
    let res = install(Arch::Arm64, src, jit, fake, boolean, salt);
    let mk = |extra: J| extra.x("entry", src as usize).x("trampoline", jit as usize).x("fake", fake as usize).n("displacement", d as i64).b("macos_variant", MACOS);
    match res {
        Err(msg) => {
            b.refused += 1;
            // refused = panicked and no write to the entry
            let wrote_entry = log().iter().any(|e| matches!(e, Ev::Patch { .. }));
            if wrote_entry {
                b.fail("refused-install-wrote-the-entry", mk(J::new().s("panic", &msg)));
            }
        }
        Ok(()) => {
            if !MACOS && !b_in_range(d) {
                // the Linux build only ever writes a plain B at the entry: a displacement B cannot
                // express must be refused, whatever the wrapped branch happens to land on
                b.fail("out-of-range-displacement-encoded-instead-of-refused", mk(J::new().s("entry_word", &format!("{:08x}", rd32(src)))));
                return;
            }
            let w = a64::walk(src, fake, &|a| rd32(a), &|a| rd64(a), &|a| written_here(a));
            for (_, word, text) in &w.path {
                words.seen.insert(("aarch64".into(), *word, text.clone()));
            }
            let path_s = format!("{:x?}", w.path.iter().map(|(a, wd, t)| format!("{:x}:{:08x} {}", a, wd, t)).collect::<Vec<_>>());
            let through_jit = w.path.iter().any(|(a, _, _)| *a >= jit && *a < jit + 64);
            match (&w.end, boolean) {
                (a64::End::Unknown { .. }, _) => {
                    b.unknown += 1;
                }
                (a64::End::Arrived(dest), None) => {
                    if *dest != fake || w.partial {
                        b.fail(if !MACOS && !b_in_range(d) { "out-of-range-displacement-encoded-instead-of-refused" } else if !through_jit { "entry-branch-does-not-reach-the-trampoline" } else { "trampoline-does-not-build-the-fake-address" }, mk(J::new().x("arrived", *dest as usize).s("path", &path_s)));
                    } else if !through_jit {
                        b.fail("entry-branch-does-not-reach-the-trampoline", mk(J::new().s("path", &path_s)));
                    }
                    let bad: Vec<u8> = w.written.iter().cloned().filter(|r| !(9..=17).contains(r)).collect();
                    if !bad.is_empty() {
                        b.fail("register-outside-x9-x17-written", mk(J::new().s("registers", &format!("{:?}", bad)).s("path", &path_s)));
                    }
                }
                (a64::End::Ret, Some(v)) => {
                    let x0 = w.regs.get(&0).cloned();
                    if x0.map(|x| x & 0xff) != Some(v as u64) || x0.map(|x| x >> 8) != Some(0) {
                        b.fail("boolean-stub-wrong-result-register", mk(J::new().s("x0", &format!("{:?}", x0)).s("path", &path_s)));
                    }
                    let bad: Vec<u8> = w.written.iter().cloned().filter(|r| *r != 0 && !(9..=17).contains(r)).collect();
                    if !bad.is_empty() {
                        b.fail("boolean-stub-writes-other-registers", mk(J::new().s("registers", &format!("{:?}", bad))));
                    }
                    if !through_jit {
                        b.fail("entry-branch-does-not-reach-the-trampoline", mk(J::new().s("path", &path_s)));
                    }
                }
                (other, _) => {
                    b.fail(if !MACOS && !b_in_range(d) { "out-of-range-displacement-encoded-instead-of-refused" } else { "patched-code-does-not-branch-to-the-fake" }, mk(J::new().s("end", &format!("{:?}", other)).s("path", &path_s)));
                }
            }
        }
    }
}

fn user_addr(rng: &mut Rng) -> u64 {
    // 4-aligned, inside a 48-bit user space, never 0
    ((rng.next() & 0x0000_7FFF_FFFF_FFFC) | 0x1000) as u64
}

fn run_c15(ctx: &Ctx) {
    let mut words = Words { seen: BTreeSet::new() };
    let mut total = 0u64;
    let mut refused = 0u64;
    let mut batches: Vec<(String, Box<dyn Fn(&mut Batch, &mut Words, &mut Rng)>)> = Vec::new();
    let thorough = ctx.thorough;
    // (a) every 16-bit value in each of the four chunk positions of the fake address, other chunks random
    for k in 0..4u32 {
        let stride = if thorough { 1 } else { 1 }; // exhaustive in both tiers: 65536 values per position
        batches.push((
            format!("fake-chunk{}-exhaustive", k),
            Box::new(move |b, w, rng| {
                let src = 0x0000_0055_5000_1000u64 + (rng.below(1 << 20) << 2);
                let jit = (src & !0xFFF) + 0x10000;
                let base = rng.next();
                let mut v = 0u64;
                while v < 65536 {
                    let fake = (base & !(0xFFFFu64 << (16 * k))) | (v << (16 * k));
                    let fake = if fake == 0 { 1 << 63 } else { fake };
                    c15_one(b, w, src, jit, fake, None, base);
                    v += stride;
                }
            }),
        ));
    }
    // (b) boundary patterns of the fake address
    batches.push((
        "fake-boundary-patterns".into(),
        Box::new(|b, w, rng| {
            let pats: Vec<u64> = vec![1, 4, 0xFFFF, 0x10000, 0xFFFF_FFFF, 0x1_0000_0000, 0xFFFF_FFFF_FFFF, 0x1_0000_0000_0000, u64::MAX, u64::MAX - 3, 1 << 63, 0x8000_0000, 0x7FFF_FFFF, 0xFFFF_0000_FFFF_0000, 0x0000_FFFF_0000_FFFF, 0xAAAA_5555_AAAA_5555];
            for &p in &pats {
                for _ in 0..4 {
                    let src = user_addr(rng);
                    let jit = (src & !0xFFF).wrapping_add(0x3000);
                    c15_one(b, w, src, jit, p, None, rng.next());
                }
            }
        }),
    ));
    // (c) random fakes
    let nrand = if ctx.n > 0 { ctx.n } else if thorough { 2_000_000 } else { 60_000 };
    for part in 0..4u64 {
        batches.push((
            format!("fake-random-part{}", part),
            Box::new(move |b, w, rng| {
                for _ in 0..nrand / 4 {
                    let src = user_addr(rng);
                    let jit = (src & !0xFFF).wrapping_add(((rng.below(60000) as i64 - 30000) * 4096) as u64);
                    let fake = if rng.chance(1, 2) { rng.next() | 1 } else { user_addr(rng) };
                    c15_one(b, w, src, jit, fake, None, rng.next());
                }
            }),
        ));
    }
    // (d) entry displacement: every word-aligned value within +-64 words of -128 MiB, 0 and +128 MiB
    for (name, centre) in [("disp-around-minus-128MiB", -(1i64 << 27)), ("disp-around-zero", 0i64), ("disp-around-plus-128MiB", 1i64 << 27)] {
        batches.push((
            name.into(),
            Box::new(move |b, w, rng| {
                for k in -64i64..=64 {
                    let d = centre + 4 * k;
                    if d.abs() < 64 {
                        continue; // the trampoline is a separate mapping: it never overlaps the 12 patched bytes
                    }
                    // the trampoline address is what the allocator shim returns: not necessarily page aligned here,
                    // the emitter must cope with any word-aligned value
                    let src = 0x0000_0040_0000_0000u64 + (rng.below(1 << 16) << 2);
                    let jit = (src as i64 + d) as u64;
                    c15_one(b, w, src, jit, user_addr(rng), None, rng.next());
                    c15_one(b, w, src, jit, user_addr(rng), Some(k % 2 == 0), rng.next());
                }
            }),
        ));
    }
    // (e) powers of two up to +-4 GiB and random displacements inside and outside the range
    batches.push((
        "disp-powers-of-two".into(),
        Box::new(|b, w, rng| {
            for p in 2..=32u32 {
                for sgn in [1i64, -1] {
                    for off in [-4i64, 0, 4] {
                        let d = sgn * (1i64 << p) + off;
                        if d.abs() < 64 {
                            continue;
                        }
                        let src = 0x0000_0040_0000_0000u64 + (rng.below(1 << 16) << 2);
                        c15_one(b, w, src, (src as i64 + d) as u64, user_addr(rng), None, rng.next());
                    }
                }
            }
        }),
    ));
    let ndisp = if thorough { 400_000 } else { 20_000 };
    batches.push((
        "disp-random-inside".into(),
        Box::new(move |b, w, rng| {
            for _ in 0..ndisp {
                let d = (rng.range(-(1 << 25), (1 << 25) - 1)) * 4;
                if d.abs() < 64 {
                    continue;
                }
                let src = 0x0000_0040_0000_0000u64 + (rng.below(1 << 30) << 2);
                c15_one(b, w, src, (src as i64 + d) as u64, user_addr(rng), if rng.chance(1, 8) { Some(rng.chance(1, 2)) } else { None }, rng.next());
            }
        }),
    ));
    batches.push((
        "disp-random-outside".into(),
        Box::new(move |b, w, rng| {
            for _ in 0..ndisp / 4 {
                let mag = (1i64 << 27) + rng.range(0, (1i64 << 32) - (1i64 << 27));
                let d = (if rng.chance(1, 2) { mag } else { -mag }) & !3;
                let src = 0x0000_0040_0000_0000u64 + (rng.below(1 << 30) << 2);
                c15_one(b, w, src, (src as i64 + d) as u64, user_addr(rng), None, rng.next());
            }
        }),
    ));
    // (e2) displacements far beyond the range, incl. multiples of 4 GiB / 16 GiB plus a small rest (a check done
    // in a narrower integer type would see only the rest)
    batches.push((
        "disp-huge".into(),
        Box::new(move |b, w, rng| {
            for k in 1..=64i64 {
                for &unit in &[1i64 << 32, 1i64 << 33, 1i64 << 34, 1i64 << 36, 1i64 << 40] {
                    for sgn in [1i64, -1] {
                        let r = rng.range(-(1 << 25), (1 << 25) - 1) * 4;
                        let d = sgn * k * unit + r;
                        let src = 0x0000_2000_0000_0000u64 + (rng.below(1 << 30) << 2);
                        let jit = (src as i64).wrapping_add(d) as u64;
                        if jit < 0x1000 || jit > 0x0000_7FFF_FFFF_F000 {
                            continue;
                        }
                        c15_one(b, w, src, jit, user_addr(rng), None, rng.next());
                    }
                }
            }
            for _ in 0..ndisp / 4 {
                let src = user_addr(rng);
                let jit = user_addr(rng);
                if (jit as i64 - src as i64).abs() < 64 {
                    continue;
                }
                c15_one(b, w, src, jit, user_addr(rng), None, rng.next());
            }
        }),
    ));
    // (f) macOS long form: pc/target pairs over +-4 GiB with all low-12-bit / page-carry combinations
    if MACOS {
        batches.push((
            "macos-adrp-page-carry".into(),
            Box::new(move |b, w, rng| {
                let lows: [u64; 9] = [0, 4, 0x7FC, 0x800, 0xFF8, 0xFFC, 0x10, 0xABC & !3, 0x554];
                for &pl in &lows {
                    for &tl in &lows {
                        for pages in [-(1i64 << 20), -(1i64 << 20) + 1, -(1i64 << 15) - 1, -(1i64 << 15), -32769, -1, 0, 1, 32767, 32768, 32769, (1i64 << 19), (1i64 << 20) - 2, (1i64 << 20) - 1] {
                            let src = 0x0000_0041_0000_0000u64 + (rng.below(1 << 10) << 12) + pl;
                            let jit = ((src & !0xFFF) as i64 + pages * 4096) as u64 + tl;
                            if (jit as i64 - src as i64).abs() < 64 {
                                continue;
                            }
                            c15_one(b, w, src, jit, user_addr(rng), None, rng.next());
                        }
                    }
                }
                for _ in 0..ndisp {
                    let src = 0x0000_0041_0000_0000u64 + (rng.below(1 << 32) << 2);
                    let pages = rng.range(-(1i64 << 20), (1i64 << 20) - 1);
                    let jit = ((src & !0xFFF) as i64 + pages * 4096) as u64 + (rng.below(1024) << 2);
                    if (jit as i64 - src as i64).abs() < 64 {
                        continue;
                    }
                    c15_one(b, w, src, jit, user_addr(rng), None, rng.next());
                }
            }),
        ));
    }
    for (idx, (name, f)) in batches.iter().enumerate() {
        let idx = idx as u64;
        if !ctx.mine(idx) {
            continue;
        }
        let class = format!("{}/{}/{}", if MACOS { "macos" } else { "linux" }, if cfg!(debug_assertions) { "dev" } else { "release" }, name);
        out::intent(idx, &class, &J::new().s("crash_sig", name));
        let mut b = Batch::new();
        let mut rng = Rng::new(ctx.seed ^ rng::hash64(idx ^ 0xC15));
        f(&mut b, &mut words, &mut rng);
        total += b.evals;
        refused += b.refused;
        let d = J::new().n("evaluations", b.evals).n("refused", b.refused).n("unknown_encodings", b.unknown);
        b.emit(idx, &class, d);
    }
    finish_words(ctx, &words);
    out::summary(&J::new().n("evaluations_total", total).n("refused_total", refused).n("distinct_instruction_words", words.seen.len()).b("macos_variant", MACOS).b("release", !cfg!(debug_assertions)));
}

fn finish_words(ctx: &Ctx, words: &Words) {
    if let Some(p) = ctx.get("words") {
        let mut s = String::new();
        for (arch, w, t) in &words.seen {
            s.push_str(&format!("{} {:08x} {}\n", arch, w, t));
        }
        let _ = std::fs::write(p, s);
    }
}

// ===================================================================================== C16
fn c16_one(b: &mut Batch, words: &mut Words, notes: &mut BTreeMap<String, u64>, entry: u32, thumb: bool, fake: u32, salt: u64) {
    b.evals += 1;
    let src = entry as u64 | thumb as u64;
    let res = install(Arch::Arm, src, 0, fake as u64, None, salt);
    let case = if !thumb { "a32" } else if entry % 4 == 0 { "t32-aligned" } else { "t32-2mod4" };
    let mk = |extra: J| extra.s("entry_case", case).x("entry", entry as usize).x("fake", fake as usize);
    match res {
        Err(msg) => {
            b.refused += 1;
            b.fail("arm-install-panicked", mk(J::new().s("panic", &msg)));
        }
        Ok(()) => {
            let w = arm32::walk(entry, thumb, &|a| rd8(a as u64));
            for (_, enc, hw, text) in &w.path {
                let arch = if !thumb { "a32" } else if *hw == 1 { "t16" } else { "t32" };
                words.seen.insert((arch.into(), *enc, text.clone()));
            }
            let path_s = format!("{:?}", w.path.iter().map(|(a, e, _, t)| format!("{:x}:{:x} {}", a, e, t)).collect::<Vec<_>>());
            match &w.end {
                arm32::End::Unknown { .. } => {
                    // not a sequence the interpreter knows in the entry's own instruction set. If the very same bytes
                    // ARE a redirect to the fake when read in the OTHER instruction set, they were encoded for the
                    // wrong one (a processor entering here in the entry's state executes something else)
                    let other = arm32::walk(entry, !thumb, &|a| rd8(a as u64));
                    match other.end {
                        arm32::End::Arrived { addr, thumb: th } if addr == (fake & !1) && th == (fake & 1 == 1) && w.path.len() <= 1 => {
                            b.fail("entry-sequence-encoded-for-the-other-instruction-set", mk(J::new().s("decodes_in_the_other_state_as", &format!("{:?}", other.path.iter().map(|(a, e, _, t)| format!("{:x}:{:x} {}", a, e, t)).collect::<Vec<_>>()))));
                        }
                        _ => b.unknown += 1,
                    }
                }
                arm32::End::TooLong => b.fail("entry-sequence-does-not-branch", mk(J::new().s("path", &path_s))),
                arm32::End::Arrived { addr, thumb: th } => {
                    match w.literal {
                        // a direct PC-relative branch has no literal; it is judged on where (and in which
                        // state) it arrives
                        None => {}
                        Some((la, lv)) => {
                            if lv != fake {
                                b.fail("literal-load-reads-the-wrong-word", mk(J::new().x("literal_address", la as usize).x("value_read", lv as usize).s("path", &path_s)));
                            }
                        }
                    }
                    if *addr != (fake & !1) || *th != (fake & 1 == 1) {
                        b.fail("branch-does-not-interwork-to-the-fake", mk(J::new().x("arrived", *addr as usize).b("thumb", *th).s("path", &path_s)));
                    }
                    let saved: Vec<u8> = w.written.iter().cloned().filter(|r| (4..=11).contains(r) || *r == 13).collect();
                    if !saved.is_empty() {
                        b.fail(&format!("{}-entry-writes-callee-saved-r{}", if thumb { "t32" } else { "a32" }, saved[0]), mk(J::new().s("registers_written", &format!("{:?}", w.written)).s("path", &path_s)));
                    }
                    for r in w.written.iter() {
                        if *r <= 3 || *r == 14 {
                            *notes.entry(format!("{} writes r{} (argument/link register: not named by the property)", case, r)).or_insert(0) += 1;
                        }
                    }
                }
            }
            if let Err(e) = check_guard(entry as u64) {
                b.fail("saved-bytes-do-not-cover-exactly-the-written-range", mk(J::new().s("what", &e)));
            }
        }
    }
}

fn run_c16(ctx: &Ctx) {
    let mut words = Words { seen: BTreeSet::new() };
    let mut notes: BTreeMap<String, u64> = BTreeMap::new();
    let mut total = 0u64;
    let nrand: u64 = if ctx.n > 0 { ctx.n } else if ctx.thorough { 6_000_000 } else { 60_000 };
    let cases: [(&str, bool, u32); 3] = [("a32", false, 0), ("t32-aligned", true, 0), ("t32-2mod4", true, 2)];
    let mut idx = 0u64;
    for (name, thumb, rem) in cases {
        for part in ["boundaries", "random", "near", "boolean"] {
            if ctx.mine(idx) {
                let class = format!("{}/{}/{}", name, part, if cfg!(debug_assertions) { "dev" } else { "release" });
                out::intent(idx, &class, &J::new().s("crash_sig", name));
                let mut b = Batch::new();
                let mut rng = Rng::new(ctx.seed ^ rng::hash64(idx ^ 0xC16));
                let fix = |a: u32| -> u32 { (a & !3).wrapping_add(rem) };
                match part {
                    "boundaries" => {
                        let ents: Vec<u32> = vec![0x8000, 0x1_0000, 0xFFFC, 0x7FFF_FFF0, 0x8000_0000, 0xFFFF_FFE0, 0x1000_0FF8, 0x1000_0FFC, 0x1000_1000, 0x0040_0000, 0xBEEF_0000];
                        let fakes: Vec<u32> = vec![4, 0x8000, 0xFFFF_FFFC, 0x7FFF_FFFC, 0x8000_0000, 0x1234_5678, 0x0001_0000, 0xFFFF_0000, 0x0000_FFFC, 0xAAAA_AAA8, 0x5555_5554];
                        for &e in &ents {
                            for &f in &fakes {
                                for fthumb in [0u32, 1] {
                                    c16_one(&mut b, &mut words, &mut notes, fix(e), thumb, (f & !1) | fthumb, rng.next());
                                }
                            }
                        }
                    }
                    "near" => {
                        // fakes close to the entry (the same image): within +-1 KiB, +-1 MiB, +-16 MiB, +-32 MiB
                        // and just beyond, in both instruction-set states
                        for _ in 0..nrand / 12 {
                            let e = fix(((rng.next() as u32) & 0x7FFF_FFF0) | 0x1000_0000);
                            let span: i64 = *rng.pick(&[1 << 10, 1 << 20, 1 << 24, (1 << 25) - 8, (1 << 25) + 64, 1 << 26]);
                            let d = rng.range(-span, span) & !1;
                            let f = ((e as i64 + d) as u32 & !1).max(2) | (rng.below(2) as u32);
                            if (f as i64 - e as i64).abs() < 16 {
                                continue;
                            }
                            c16_one(&mut b, &mut words, &mut notes, e, thumb, f, rng.next());
                        }
                    }
                    "random" => {
                        for _ in 0..nrand / 3 {
                            let e = fix((rng.next() as u32) & 0xFFFF_FFF0).max(16);
                            let f = ((rng.next() as u32) & !1).max(2) | (rng.below(2) as u32);
                            c16_one(&mut b, &mut words, &mut notes, e, thumb, f, rng.next());
                        }
                    }
                    _ => {
                        // forced boolean: branches to return_true / return_false inside the library; their
                        // (host) addresses are not known here, so only the structure is judged: the literal
                        // read equals the branch destination, and true and false differ
                        let mut dest = Vec::new();
                        for v in [true, false] {
                            let e = fix(0x2000_0000 + ((rng.below(1 << 20) as u32) << 4));
                            b.evals += 1;
                            let src = e as u64 | thumb as u64;
                            match install(Arch::Arm, src, 0, 0, Some(v), rng.next()) {
                                Err(m) => b.fail("arm-boolean-install-panicked", J::new().s("panic", &m)),
                                Ok(()) => {
                                    let w = arm32::walk(e, thumb, &|a| rd8(a as u64));
                                    match (&w.end, w.literal) {
                                        (arm32::End::Arrived { addr, thumb: th }, Some((_, lv))) => {
                                            if (*addr | *th as u32) != lv {
                                                b.fail("boolean-literal-and-branch-disagree", J::new().x("literal", lv as usize));
                                            }
                                            dest.push(lv);
                                        }
                                        // a sequence that builds the address without a literal (movw/movt, direct branch)
                                        (arm32::End::Arrived { addr, thumb: th }, None) => dest.push(*addr | *th as u32),
                                        (arm32::End::Unknown { .. }, _) => b.unknown += 1,
                                        _ => b.fail("boolean-entry-does-not-branch", J::new()),
                                    }
                                    if let Err(e2) = check_guard(e as u64) {
                                        b.fail("saved-bytes-do-not-cover-exactly-the-written-range", J::new().s("what", &e2));
                                    }
                                }
                            }
                        }
                        if dest.len() == 2 && dest[0] == dest[1] {
                            b.fail("boolean-true-and-false-branch-to-the-same-place", J::new());
                        }
                        // the helper the stub branches to is one function with one address and one
                        // instruction-set state: whatever the state of the function being replaced, the word
                        // loaded must be the same as for an ARM-state entry
                        let mut refd = Vec::new();
                        for v in [true, false] {
                            let e = 0x3000_0000u32 + ((rng.below(1 << 20) as u32) << 4);
                            if install(Arch::Arm, e as u64, 0, 0, Some(v), rng.next()).is_ok() {
                                let w = arm32::walk(e, false, &|a| rd8(a as u64));
                                if let arm32::End::Arrived { addr, thumb: th } = w.end {
                                    refd.push(addr | th as u32);
                                }
                            }
                        }
                        if dest.len() == 2 && refd.len() == 2 && dest != refd {
                            b.fail("boolean-helper-entered-at-a-different-address-or-state-than-from-an-ARM-entry", J::new().s("from_this_entry", &format!("{:x?}", dest)).s("from_arm_entry", &format!("{:x?}", refd)));
                        }
                    }
                }
                total += b.evals;
                let d = J::new().n("evaluations", b.evals).n("unknown_encodings", b.unknown);
                b.emit(idx, &class, d);
            }
            idx += 1;
        }
    }
    finish_words(ctx, &words);
    let nj = notes.iter().fold(J::new(), |j, (k, v)| j.n(k, *v));
    out::summary(&J::new().n("evaluations_total", total).n("distinct_instruction_words", words.seen.len()).o("notes_not_judged", nj).b("release", !cfg!(debug_assertions)));
}

// ===================================================================================== C13 (AArch64 / ARM part)
/// Registers the caller owns at the moment of the call: argument registers, the hidden-return-slot
/// register, the callee-saved set, the link register and the stack pointer. The bytes between the
/// caller's branch and the fake's first instruction may write none of them.
fn run_c13sim(ctx: &Ctx) {
    let mut words = Words { seen: BTreeSet::new() };
    let mut total = 0u64;
    let n: u64 = if ctx.n > 0 { ctx.n } else if ctx.thorough { 400_000 } else { 20_000 };
    let parts = ["a64-short", "a64-far-fake", "a32", "t32-aligned", "t32-2mod4"];
    for (idx, part) in parts.iter().enumerate() {
        let idx = idx as u64;
        if !ctx.mine(idx) {
            continue;
        }
        let class = format!("c13/{}/{}/{}", if MACOS { "macos" } else { "linux" }, if cfg!(debug_assertions) { "dev" } else { "release" }, part);
        out::intent(idx, &class, &J::new().s("crash_sig", part));
        let mut b = Batch::new();
        let mut rng = Rng::new(ctx.seed ^ rng::hash64(idx ^ 0xC13));
        let mut written_sets: BTreeMap<String, u64> = BTreeMap::new();
        for _ in 0..n {
            if part.starts_with("a64") {
                let src = user_addr(&mut rng);
                let pages = if MACOS && rng.chance(1, 2) { rng.range(-(1i64 << 19), (1i64 << 19) - 1) } else { rng.range(-30000, 30000) };
                let jit = ((src & !0xFFF) as i64 + pages * 4096) as u64;
                if (jit as i64 - src as i64).abs() < 64 || jit == 0 || jit >> 47 != 0 {
                    continue;
                }
                let fake = if *part == "a64-far-fake" { rng.next() | 4 } else { (src as i64 + rng.range(-(1 << 20), 1 << 20) * 4) as u64 };
                b.evals += 1;
                if install(Arch::Arm64, src, jit, fake, None, rng.next()).is_err() {
                    b.refused += 1;
                    continue;
                }
                let w = a64::walk(src, fake, &|a| rd32(a), &|a| rd64(a), &|a| written_here(a));
                for (_, word, text) in &w.path {
                    words.seen.insert(("aarch64".into(), *word, text.clone()));
                }
                match w.end {
                    a64::End::Unknown { .. } => b.unknown += 1,
                    _ => {
                        *written_sets.entry(format!("{:?}", w.written)).or_insert(0) += 1;
                        let bad: Vec<u8> = w.written.iter().cloned().filter(|r| !(9..=17).contains(r)).collect();
                        if !bad.is_empty() {
                            let what = if bad.contains(&8) { "hidden-return-slot-register-x8-written" } else if bad.iter().any(|r| *r <= 7) { "argument-register-written" } else { "callee-saved-or-reserved-register-written" };
                            b.fail(&format!("a64-{}", what), J::new().x("entry", src as usize).x("trampoline", jit as usize).x("fake", fake as usize).s("registers_written", &format!("{:?}", w.written)).s("path", &format!("{:x?}", w.path.iter().map(|(a, wd, t)| format!("{:x}:{:08x} {}", a, wd, t)).collect::<Vec<_>>())));
                        }
                    }
                }
            } else {
                let thumb = *part != "a32";
                let rem = if *part == "t32-2mod4" { 2 } else { 0 };
                let e = ((rng.next() as u32) & 0xFFFF_FFF0 & !3).wrapping_add(rem).max(16);
                let f = ((rng.next() as u32) & !1).max(2) | (rng.below(2) as u32);
                b.evals += 1;
                if install(Arch::Arm, e as u64 | thumb as u64, 0, f as u64, None, rng.next()).is_err() {
                    b.refused += 1;
                    continue;
                }
                let w = arm32::walk(e, thumb, &|a| rd8(a as u64));
                for (_, enc, hw, text) in &w.path {
                    let arch = if !thumb { "a32" } else if *hw == 1 { "t16" } else { "t32" };
                    words.seen.insert((arch.into(), *enc, text.clone()));
                }
                match w.end {
                    arm32::End::Unknown { .. } => b.unknown += 1,
                    _ => {
                        *written_sets.entry(format!("{:?}", w.written)).or_insert(0) += 1;
                        // r12 (ip) is the only register the procedure-call standard lets a veneer corrupt
                        let bad: Vec<u8> = w.written.iter().cloned().filter(|r| *r != 12 && *r != 15).collect();
                        if !bad.is_empty() {
                            let what = if bad.iter().any(|r| *r <= 3) { "argument-register-written" } else if bad.contains(&13) { "stack-pointer-written" } else if bad.contains(&14) { "link-register-written" } else { "callee-saved-register-written" };
                            b.fail(&format!("{}-{}", part, what), J::new().x("entry", e as usize).x("fake", f as usize).s("registers_written", &format!("{:?}", w.written)).s("path", &format!("{:?}", w.path.iter().map(|(a, en, _, t)| format!("{:x}:{:x} {}", a, en, t)).collect::<Vec<_>>())));
                        }
                    }
                }
            }
        }
        total += b.evals;
        let ws = written_sets.iter().fold(J::new(), |j, (k, v)| j.n(k, *v));
        let d = J::new().n("evaluations", b.evals).n("refused", b.refused).n("unknown_encodings", b.unknown).o("register_sets_written_on_the_way_to_the_fake", ws);
        b.emit(idx, &class, d);
    }
    finish_words(ctx, &words);
    out::summary(&J::new().n("evaluations_total", total).n("distinct_instruction_words", words.seen.len()).b("macos_variant", MACOS).b("release", !cfg!(debug_assertions)));
}

// ===================================================================================== C02: the real PatchGuard on host memory
/// The REAL `PatchGuard` of common.rs (copied unmodified) is created by hand, the way the 32-bit ARM patcher creates
/// it (no trampoline) and the way the others do (with a trampoline page), over a "patched" range in a host
/// mapping, and dropped: the saved bytes must be back, byte for byte, nothing else in the two pages may differ,
/// and a trampoline page must be gone.
#[cfg(not(sim_no_realcore))]
fn run_c02guard(ctx: &Ctx) {
    use realcore::common::PatchGuard as RealGuard;
    const PAGE: usize = 4096;
    let mut total = 0u64;
    for (idx, with_tramp) in [false, true].iter().enumerate() {
        let idx = idx as u64;
        if !ctx.mine(idx) {
            continue;
        }
        let class = format!("real-guard/{}", if *with_tramp { "with-trampoline" } else { "no-trampoline (32-bit ARM style)" });
        out::intent(idx, &class, &J::new().s("crash_sig", "real-guard"));
        let mut rng = Rng::new(ctx.seed ^ rng::hash64(idx ^ 0xC02));
        let mut bad: Option<J> = None;
        let n = if ctx.thorough { 20000 } else { 2000 };
        for _ in 0..n {
            let map = unsafe { libc::mmap(std::ptr::null_mut(), 2 * PAGE, libc::PROT_READ | libc::PROT_WRITE | libc::PROT_EXEC, libc::MAP_PRIVATE | libc::MAP_ANONYMOUS, -1, 0) };
            if map == libc::MAP_FAILED {
                continue;
            }
            let base = map as usize;
            let region = unsafe { std::slice::from_raw_parts_mut(base as *mut u8, 2 * PAGE) };
            for b in region.iter_mut() {
                *b = rng.next() as u8;
            }
            let original: Vec<u8> = region.to_vec();
            let len = *rng.pick(&[4usize, 5, 8, 12, 12, 12, 16]);
            // every patched range has at least 16 mapped bytes from its start (the slot the properties grant)
            let mode = rng.below(4);
            let off = match mode {
                0 => PAGE - 1 - rng.below(len as u64) as usize, // straddles the page boundary
                1 => PAGE - len,                                 // ends exactly with the first page; the second page is read-only
                2 => 0,
                _ => rng.below((2 * PAGE - 16) as u64) as usize,
            };
            let saved = original[off..off + len].to_vec();
            for k in 0..len {
                region[off + k] = !original[off + k];
            }
            if mode == 1 {
                // like program text: the neighbouring page is mapped but not writable, and restoring this range gives
                // nobody a reason to make it so
                unsafe { libc::mprotect((base + PAGE) as *mut libc::c_void, PAGE, libc::PROT_READ | libc::PROT_EXEC) };
            }
            let (jit, jit_size) = if *with_tramp {
                let j = unsafe { libc::mmap(std::ptr::null_mut(), PAGE, libc::PROT_READ | libc::PROT_WRITE | libc::PROT_EXEC, libc::MAP_PRIVATE | libc::MAP_ANONYMOUS, -1, 0) };
                (j as *mut u8, PAGE)
            } else {
                (std::ptr::null_mut(), 0)
            };
            let g = RealGuard::new((base + off) as *mut u8, saved, len, jit, jit_size);
            drop(g);
            total += 1;
            let now = unsafe { std::slice::from_raw_parts(base as *const u8, 2 * PAGE) };
            if now != &original[..] {
                let first = (0..2 * PAGE).find(|k| now[*k] != original[*k]).unwrap();
                bad = Some(J::new().n("patched_offset", off).n("patch_len", len).n("first_differing_offset", first).b("inside_the_patched_range", first >= off && first < off + len));
            }
            if *with_tramp && bad.is_none() {
                let mut v = 0u8;
                if unsafe { libc::mincore(jit as *mut libc::c_void, PAGE, &mut v as *mut u8) } == 0 {
                    bad = Some(J::new().s("what", "the trampoline page is still mapped after the guard was dropped"));
                    unsafe { libc::munmap(jit as *mut libc::c_void, PAGE) };
                }
            }
            unsafe { libc::munmap(map, 2 * PAGE) };
            if bad.is_some() {
                break;
            }
        }
        match bad {
            None => out::outcome(idx, &class, Verdict::Held, "", &J::new().n("guards_dropped", total)),
            Some(d) => out::outcome(idx, &class, Verdict::Violated, if *with_tramp { "real-guard-did-not-restore-or-release" } else { "guard-without-trampoline-did-not-restore-the-function" }, &d),
        }
    }
    out::summary(&J::new().n("evaluations_total", total).n("real_guards_dropped", total));
}
#[cfg(sim_no_realcore)]
fn run_c02guard(_ctx: &Ctx) {
    eprintln!("HARNESS-ERROR the real common.rs is not part of this build");
    std::process::exit(2);
}

// ===================================================================================== C01 (simulation part), C10 amd64 stub bytes
/// Order of the writes of the last install: the entry may only be redirected once the trampoline holds its code;
/// in between any thread calling the function would run whatever the fresh page contains.
/// Some((entry write index, last trampoline write index)) if the entry was written first.
fn entry_written_before_trampoline(src: u64, jit: u64) -> Option<(usize, usize)> {
    let lg = log();
    let entry_at = lg.iter().position(|e| matches!(e, Ev::Patch { func, .. } if *func == src))?;
    let last_tramp = lg.iter().rposition(|e| matches!(e, Ev::Inject { dest, .. } if *dest >= jit && *dest < jit + 4096))?;
    if last_tramp > entry_at {
        Some((entry_at, last_tramp))
    } else {
        None
    }
}

fn c01_one(b: &mut Batch, forms: &mut BTreeMap<String, u64>, src: u64, jit: u64, fake: u64, boolean: Option<bool>, salt: u64) {
    b.evals += 1;
    let res = install(Arch::Amd64, src, jit, fake, boolean, salt);
    let mk = |extra: J| extra.x("entry", src as usize).x("trampoline", jit as usize).x("fake", fake as usize);
    match res {
        Err(msg) => {
            b.refused += 1;
            if log().iter().any(|e| matches!(e, Ev::Patch { .. })) {
                b.fail("refused-install-wrote-the-entry", mk(J::new().s("panic", &msg)));
            }
        }
        Ok(()) => {
            if let Some((e, t)) = entry_written_before_trampoline(src, jit) {
                b.fail("entry-redirected-before-the-trampoline-was-written", mk(J::new().n("entry_write_is_event", e as u64).n("last_trampoline_write_is_event", t as u64)));
            }
            let reader = |a: usize, n: usize| -> Option<Vec<u8>> { Some((0..n as u64).map(|i| rd8((a as u64).wrapping_add(i))).collect()) };
            let want = if boolean.is_some() { usize::MAX } else { fake as usize };
            let w = x86::follow(src as usize, want, &reader);
            let path_s = format!("{:x?}", w.path);
            let lens: Vec<String> = w.words.iter().map(|x| x.len().to_string()).collect();
            *forms.entry(lens.join("+")).or_insert(0) += 1;
            let through = w.path.iter().any(|(a, _)| (*a as u64) >= jit && (*a as u64) < jit + 16);
            match (&w.end, boolean) {
                (x86::End::Landed, None) => {
                    if !through {
                        b.fail("entry-does-not-go-through-the-trampoline", mk(J::new().s("path", &path_s)));
                    }
                    let bad: Vec<&&str> = w.written.iter().filter(|r| !["rax", "r10", "r11"].contains(*r)).collect();
                    if !bad.is_empty() {
                        b.fail("non-scratch-register-written", mk(J::new().s("registers", &format!("{:?}", bad))));
                    }
                }
                (x86::End::Ret { rax, .. }, Some(v)) => {
                    if rax.map(|r| r & 0xff) != Some(v as u64) || !through {
                        b.fail("boolean-stub-wrong", mk(J::new().s("rax", &format!("{:?}", rax)).s("path", &path_s)));
                    }
                }
                (x86::End::Unknown { at, .. }, _) if !written_here(*at as u64) => b.fail("control-leaves-to-memory-the-install-did-not-write", mk(J::new().x("at", *at).s("path", &path_s))),
                (x86::End::Unknown { .. }, _) => b.unknown += 1,
                (other, _) => b.fail("patched-code-does-not-reach-the-fake", mk(J::new().s("end", &format!("{:?}", other)).s("path", &path_s))),
            }
        }
    }
}

// ===================================================================================== C11 (arm64 reach check, simulation part)
/// C11 on the arm64 back end: for every trampoline displacement the allocator may hand over (it accepts
/// +-128 MiB inclusive) and beyond, the install either writes a branch that reaches the trampoline or
/// panics having left the function untouched.
fn run_c11sim(ctx: &Ctx) {
    let mut idx = 0u64;
    let mut total = 0u64;
    for (name, centre) in [("arm64/around-minus-128MiB", -(1i64 << 27)), ("arm64/around-plus-128MiB", 1i64 << 27), ("arm64/far-outside", 0i64)] {
        if ctx.mine(idx) {
            let class = format!("{}/{}/{}", name, if MACOS { "macos" } else { "linux" }, if cfg!(debug_assertions) { "dev" } else { "release" });
            out::intent(idx, &class, &J::new().s("crash_sig", name));
            let mut b = Batch::new();
            let mut rng = Rng::new(ctx.seed ^ rng::hash64(idx ^ 0xC11));
            let mut one = |b: &mut Batch, src: u64, d: i64, rng: &mut Rng| {
                b.evals += 1;
                let jit = (src as i64 + d) as u64;
                let fake = user_addr(rng);
                match install(Arch::Arm64, src, jit, fake, None, rng.next()) {
                    Err(_) => {
                        b.refused += 1;
                        if log().iter().any(|e| matches!(e, Ev::Patch { .. })) {
                            b.fail("failed-install-left-target-modified", J::new().x("entry", src as usize).n("displacement", d));
                        }
                    }
                    Ok(()) => {
                        let w = a64::walk(src, jit, &|a| rd32(a), &|a| rd64(a), &|a| written_here(a));
                        let reached = matches!(w.end, a64::End::Arrived(x) if x == jit) || w.path.iter().any(|(a, _, _)| *a == jit);
                        if !reached {
                            b.fail("entry-branch-does-not-reach-the-trampoline-it-was-given", J::new().x("entry", src as usize).x("trampoline", jit as usize).n("displacement", d).s("entry_word", &format!("{:08x}", rd32(src))));
                        }
                    }
                }
            };
            if centre != 0 {
                for k in -4096i64..=4096 {
                    let src = 0x0000_0040_0000_0000u64 + (rng.below(1 << 16) << 2);
                    one(&mut b, src, centre + 4 * k, &mut rng);
                }
                // page-aligned functions with the page-granular placements the allocator really produces
                for pg in -4i64..=4 {
                    let src = 0x0000_0040_0000_0000u64 + (rng.below(1 << 16) << 12);
                    one(&mut b, src, centre + pg * 4096, &mut rng);
                }
            } else {
                for k in 1..=32i64 {
                    for &unit in &[1i64 << 32, 1i64 << 34, 1i64 << 36] {
                        for sgn in [1i64, -1] {
                            let d = sgn * k * unit + rng.range(-(1 << 25), (1 << 25) - 1) * 4;
                            let src = 0x0000_2000_0000_0000u64 + (rng.below(1 << 30) << 2);
                            if MACOS {
                                continue;
                            }
                            one(&mut b, src, d, &mut rng);
                        }
                    }
                }
                for _ in 0..20_000 {
                    let mag = (1i64 << 27) + rng.range(0, (1i64 << 32) - (1i64 << 27));
                    let d = (if rng.chance(1, 2) { mag } else { -mag }) & !3;
                    let src = 0x0000_0040_0000_0000u64 + (rng.below(1 << 30) << 2);
                    if MACOS {
                        let pd = (((src as i64 + d) as u64) >> 12) as i128 - (src >> 12) as i128;
                        if pd < -(1 << 20) || pd >= (1 << 20) {
                            continue;
                        }
                    }
                    one(&mut b, src, d, &mut rng);
                }
            }
            total += b.evals;
            let d = J::new().n("evaluations", b.evals).n("refused", b.refused);
            b.emit(idx, &class, d);
        }
        idx += 1;
    }
    out::summary(&J::new().n("evaluations_total", total).b("release", !cfg!(debug_assertions)).b("macos_variant", MACOS));
}

// ===================================================================================== C02 (bookkeeping part, all back ends)
/// The save/restore bookkeeping of every back end: the guard must restore exactly the range that was
/// overwritten, at the address that was overwritten, with the bytes that were there before.
fn run_c02sim(ctx: &Ctx) {
    let n = if ctx.n > 0 { ctx.n } else if ctx.thorough { 400_000 } else { 30_000 };
    let archs: Vec<(&str, Arch)> = [("arm64", Arch::Arm64, cfg!(not(sim_no_arm64))), ("arm", Arch::Arm, cfg!(not(sim_no_arm))), ("amd64", Arch::Amd64, cfg!(not(sim_no_amd64)))].iter().filter(|x| x.2).map(|x| (x.0, x.1)).collect();
    let mut total = 0u64;
    let mut idx = 0u64;
    for (name, arch) in archs {
        for kind in ["function", "boolean"] {
            if ctx.mine(idx) {
                let class = format!("{}/{}/{}/{}", name, kind, if MACOS { "macos" } else { "linux" }, if cfg!(debug_assertions) { "dev" } else { "release" });
                out::intent(idx, &class, &J::new().s("crash_sig", name));
                let mut b = Batch::new();
                let mut rng = Rng::new(ctx.seed ^ rng::hash64(idx ^ 0xC02));
                for _ in 0..n {
                    b.evals += 1;
                    let (src, jit, fake): (u64, u64, u64) = match arch {
                        Arch::Arm => {
                            let thumb = rng.below(2);
                            let e = ((rng.next() as u32 & 0xFFFF_FFF0) as u64 + if thumb == 1 && rng.chance(1, 2) { 2 } else { 0 }).max(16) | thumb;
                            (e, 0, ((rng.next() as u32) as u64 & !1).max(2) | rng.below(2))
                        }
                        Arch::Arm64 => {
                            let s0 = user_addr(&mut rng);
                            (s0, (s0 & !0xFFF).wrapping_add((rng.range(-30000, 30000) * 4096) as u64) | 0x10_0000_0000, user_addr(&mut rng))
                        }
                        Arch::Amd64 => {
                            let s0 = (rng.next() & 0x0000_7FFF_FFFF_FFFF) | 0x10000;
                            let j = if rng.chance(1, 2) { (s0 & !0xFFF).wrapping_add((rng.range(-30000, 30000) * 4096) as u64) | 0x100000 } else { (rng.next() & 0x0000_7FFF_FFFF_F000) | 0x100000 };
                            (s0, j, (rng.next() & 0x0000_7FFF_FFFF_FFFF) | 0x20)
                        }
                    };
                    if (jit as i128 - src as i128).abs() < 4096 && arch != Arch::Arm {
                        continue;
                    }
                    let boolean = if kind == "boolean" { Some(rng.chance(1, 2)) } else { None };
                    match install(arch, src, jit, fake, boolean, rng.next()) {
                        Err(_) => b.refused += 1,
                        Ok(()) => {
                            let entry = if arch == Arch::Arm { src & !1 } else { src };
                            if let Err(e) = check_guard(entry) {
                                let sig = if e.contains("pre-image") { "saved-bytes-are-not-the-pre-image" } else if e.contains("bytes but") { "guard-restores-a-different-length-than-was-written" } else if e.contains("restores") { "guard-restores-a-different-address" } else { "guard-bookkeeping" };
                                b.fail(sig, J::new().s("what", &e).x("entry", entry as usize).x("trampoline", jit as usize));
                            }
                        }
                    }
                }
                total += b.evals;
                let d = J::new().n("evaluations", b.evals).n("refused", b.refused);
                b.emit(idx, &class, d);
            }
            idx += 1;
        }
    }
    out::summary(&J::new().n("evaluations_total", total).b("release", !cfg!(debug_assertions)).b("macos_variant", MACOS));
}

fn run_c01sim(ctx: &Ctx) {
    let mut forms: BTreeMap<String, u64> = BTreeMap::new();
    let mut total = 0u64;
    let two31: i64 = 1 << 31;
    let edge: Vec<i64> = vec![two31 - 1, two31 - 2, two31, two31 + 1, two31 + 2, -two31, -two31 + 1, -two31 - 1, -two31 - 2, 0, 1, -1, 5, -5, 4096, -4096, (1i64 << 32) - 1, 1i64 << 32, 1i64 << 40, -(1i64 << 40), 1i64 << 46, -(1i64 << 46)];
    let nrand = if ctx.n > 0 { ctx.n } else if ctx.thorough { 3_000_000 } else { 200_000 };
    let names = ["edge-grid", "random-near", "random-far", "boolean", "full-64-bit", "absolute-address-classes", "arm64-write-order"];
    for (idx, name) in names.iter().enumerate() {
        let idx = idx as u64;
        if !ctx.mine(idx) {
            continue;
        }
        let class = format!("amd64/{}/{}", name, if cfg!(debug_assertions) { "dev" } else { "release" });
        out::intent(idx, &class, &J::new().s("crash_sig", name));
        let mut b = Batch::new();
        let mut rng = Rng::new(ctx.seed ^ rng::hash64(idx ^ 0xC01));
        match *name {
            "arm64-write-order" => {
                // AArch64 (both install kinds): same ordering rule; judged on the shim's event log
                if cfg!(sim_no_arm64) {
                    out::outcome(idx, "arm64/write-order", Verdict::Inconclusive, "emitter-not-in-this-build", &J::new());
                    continue;
                }
                for k in 0..2000u64 {
                    let src = user_addr(&mut rng);
                    let jit = ((src & !0xFFF) as i64 + rng.range(-30000, 30000) * 4096) as u64;
                    if (jit as i64 - src as i64).abs() < 64 || jit >> 47 != 0 || jit == 0 {
                        continue;
                    }
                    b.evals += 1;
                    let boolean = if k % 4 == 3 { Some(k % 8 == 3) } else { None };
                    if install(Arch::Arm64, src, jit, user_addr(&mut rng), boolean, rng.next()).is_ok() {
                        if let Some((e, t)) = entry_written_before_trampoline(src, jit) {
                            b.fail("entry-redirected-before-the-trampoline-was-written", J::new().s("arch", "arm64").x("entry", src as usize).x("trampoline", jit as usize).n("entry_write_is_event", e as u64).n("last_trampoline_write_is_event", t as u64));
                        }
                    } else {
                        b.refused += 1;
                    }
                }
            }
            "edge-grid" => {
                // entry->trampoline displacement d1 and trampoline->fake displacement d2 on the i32 boundary grid
                for &d1 in &edge {
                    for &d2 in &edge {
                        for _ in 0..3 {
                            let src = 0x0000_4000_0000_0000u64 + rng.below(1 << 30);
                            let jit = (src as i64 + 5 + d1) as u64;
                            let fake = (jit as i64 + 5 + d2) as u64;
                            if fake == 0 || jit == 0 || (jit as i128 - src as i128).abs() < 16 || (fake as i128 - jit as i128).abs() < 16 || (fake as i128 - src as i128).abs() < 16 {
                                continue;
                            }
                            c01_one(&mut b, &mut forms, src, jit, fake, None, rng.next());
                        }
                    }
                }
            }
            "random-near" => {
                for _ in 0..nrand / 2 {
                    let src = (rng.next() & 0x0000_7FFF_FFFF_FFFF) | 0x10000;
                    let jit = (src & !0xFFF).wrapping_add((rng.range(-32768, 32768) * 4096) as u64) | 0x100000;
                    let fake = (jit as i64 + 5 + two31 * (if rng.chance(1, 2) { 1 } else { -1 }) + rng.range(-70000, 70000)) as u64 & 0x0000_7FFF_FFFF_FFFF | 0x20;
                    if (jit as i128 - src as i128).abs() < 4096 || (fake as i128 - jit as i128).abs() < 4096 || (fake as i128 - src as i128).abs() < 4096 {
                        continue;
                    }
                    c01_one(&mut b, &mut forms, src, jit, fake, None, rng.next());
                }
            }
            "random-far" => {
                for _ in 0..nrand / 2 {
                    let src = (rng.next() & 0x0000_7FFF_FFFF_FFFF) | 0x10000;
                    // trampolines beyond +-2 GiB: the Windows-style 12-byte entry
                    let jit = (rng.next() & 0x0000_7FFF_FFFF_F000) | 0x100000;
                    let fake = (rng.next() & 0x0000_7FFF_FFFF_FFFF) | 0x20;
                    if (jit as i128 - src as i128).abs() < 4096 || (fake as i128 - jit as i128).abs() < 4096 || (fake as i128 - src as i128).abs() < 4096 {
                        continue;
                    }
                    c01_one(&mut b, &mut forms, src, jit, fake, None, rng.next());
                }
            }
            "absolute-address-classes" => {
                // entry, trampoline and fake each drawn from the classes < 2^31, [2^31, 2^32), [2^32, 2^33), high
                let cls = |rng: &mut Rng, c: u64| -> u64 {
                    match c {
                        0 => 0x10000 + rng.below(0x7FF0_0000),
                        1 => 0x8000_0000 + rng.below(0x7FFF_0000),
                        2 => 0x1_0000_0000 + rng.below(0xFFFF_0000),
                        _ => 0x10_0000_0000 + (rng.next() & 0x7FFF_FFFF_FFFF),
                    }
                };
                for _ in 0..nrand / 4 {
                    let (c1, c2, c3) = (rng.below(4), rng.below(4), rng.below(4));
                    let src = cls(&mut rng, c1);
                    let jit = cls(&mut rng, c2) & !0xFFF;
                    let fake = cls(&mut rng, c3);
                    if (jit as i128 - src as i128).abs() < 4096 || (fake as i128 - jit as i128).abs() < 4096 || (fake as i128 - src as i128).abs() < 4096 {
                        continue;
                    }
                    c01_one(&mut b, &mut forms, src, jit, fake, None, rng.next());
                }
            }
            "boolean" => {
                for _ in 0..nrand / 8 {
                    let src = (rng.next() & 0x0000_7FFF_FFFF_FFFF) | 0x10000;
                    let jit = if rng.chance(1, 2) { (src & !0xFFF).wrapping_add((rng.range(-32768, 32768) * 4096) as u64) | 0x100000 } else { (rng.next() & 0x0000_7FFF_FFFF_F000) | 0x100000 };
                    if (jit as i128 - src as i128).abs() < 4096 {
                        continue;
                    }
                    c01_one(&mut b, &mut forms, src, jit, 0x1234, Some(rng.chance(1, 2)), rng.next());
                }
            }
            _ => {
                for _ in 0..nrand / 8 {
                    let (src, jit, fake) = (rng.next() | 8, rng.next() | 8, rng.next() | 8);
                    if (jit as i128 - src as i128).abs() < 4096 || (fake as i128 - jit as i128).abs() < 4096 || (fake as i128 - src as i128).abs() < 4096 {
                        continue;
                    }
                    c01_one(&mut b, &mut forms, src, jit, fake, None, rng.next());
                }
            }
        }
        total += b.evals;
        let d = J::new().n("evaluations", b.evals).n("refused_loudly", b.refused).n("unknown_encodings", b.unknown);
        b.emit(idx, &class, d);
    }
    let fj = forms.iter().fold(J::new(), |j, (k, v)| j.n(k, *v));
    out::summary(&J::new().n("evaluations_total", total).o("instruction_length_forms(entry+trampoline)", fj).b("release", !cfg!(debug_assertions)));
}

// ===================================================================================== driver
#[derive(Clone, Debug)]
pub struct Ctx {
    pub scenario: String,
    pub seed: u64,
    pub thorough: bool,
    pub shard: u64,
    pub nshards: u64,
    pub from: u64,
    pub only: Option<u64>,
    pub n: u64,
    pub extra: Vec<(String, String)>,
}
impl Ctx {
    pub fn mine(&self, idx: u64) -> bool {
        if let Some(o) = self.only {
            return idx == o;
        }
        idx >= self.from && idx % self.nshards == self.shard
    }
    pub fn get(&self, k: &str) -> Option<&str> {
        self.extra.iter().find(|(a, _)| a == k).map(|(_, b)| b.as_str())
    }
}

fn main() {
    let args: Vec<String> = std::env::args().collect();
    let mut ctx = Ctx { scenario: args.get(1).cloned().unwrap_or_default(), seed: 1, thorough: false, shard: 0, nshards: 1, from: 0, only: None, n: 0, extra: Vec::new() };
    let mut i = 2;
    while i < args.len() {
        let k = args[i].as_str();
        let v = args.get(i + 1).cloned().unwrap_or_default();
        match k {
            "--seed" => ctx.seed = v.parse().unwrap_or(1),
            "--tier" => ctx.thorough = v == "thorough",
            "--shard" => {
                let mut p = v.split('/');
                ctx.shard = p.next().unwrap().parse().unwrap();
                ctx.nshards = p.next().unwrap().parse().unwrap();
            }
            "--from" => ctx.from = v.parse().unwrap_or(0),
            "--only" => ctx.only = v.parse().ok(),
            "--n" => ctx.n = v.parse().unwrap_or(0),
            "--out" => out::open(&v),
            _ => {
                if let Some(name) = k.strip_prefix("--") {
                    ctx.extra.push((name.to_string(), v));
                }
            }
        }
        i += 2;
    }
    std::panic::set_hook(Box::new(|_| {}));
    match ctx.scenario.as_str() {
        "c15" => run_c15(&ctx),
        "c16" => run_c16(&ctx),
        "c13sim" => run_c13sim(&ctx),
        "c02guard" => run_c02guard(&ctx),
        "c01sim" => run_c01sim(&ctx),
        "c02sim" => run_c02sim(&ctx),
        "c11sim" => run_c11sim(&ctx),
        other => {
            eprintln!("HARNESS-ERROR unknown scenario {other}");
            std::process::exit(2);
        }
    }
}
