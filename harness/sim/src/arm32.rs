//! M4 (A32/T32 part) — interpreter for the 32-bit ARM instructions an entry redirect can sensibly
//! use, written from the Arm ARM (A8.8): LDR (literal) in A32, T1 (16-bit) and T2 (32-bit) forms
//! with the Align(PC,4) rule, BX, MOV (register), MOVW/MOVT, NOP. Unknown encodings end the walk as
//! Unknown (inconclusive).
use std::collections::{BTreeMap, BTreeSet};

#[derive(Debug, Clone, PartialEq)]
pub enum End {
    /// interworking branch to (address without the state bit, thumb?)
    Arrived { addr: u32, thumb: bool },
    Unknown { at: u32, enc: u32 },
    TooLong,
}

pub struct Walk {
    pub end: End,
    pub written: BTreeSet<u8>,
    pub regs: BTreeMap<u8, u32>,
    /// (address, encoding, halfwords, canonical text)
    pub path: Vec<(u32, u32, u8, String)>,
    /// address of the literal the load actually read, and the value read
    pub literal: Option<(u32, u32)>,
}

fn align4(x: u32) -> u32 {
    x & !3
}

pub fn canon_a32(w: u32) -> Option<String> {
    let cond = w >> 28;
    if cond != 0xE {
        return None;
    }
    if w & 0x0F7F0000 == 0x051F0000 {
        let u = (w >> 23) & 1;
        let rt = (w >> 12) & 15;
        let imm = w & 0xFFF;
        return Some(format!("ldr r{}, [pc, #{}{}]", rt, if u == 1 { "" } else { "-" }, imm));
    }
    if w & 0x0FFFFFF0 == 0x012FFF10 {
        return Some(format!("bx r{}", w & 15));
    }
    if w == 0xE320F000 {
        return Some("nop".into());
    }
    if w & 0x0F000000 == 0x0A000000 {
        let imm = (((w & 0x00FF_FFFF) << 8) as i32 >> 6) as i64; // sign-extended imm24 << 2
        return Some(format!("b #{}", imm));
    }
    if w & 0x0FFF0FF0 == 0x01A00000 {
        return Some(format!("mov r{}, r{}", (w >> 12) & 15, w & 15));
    }
    if w & 0x0FF00000 == 0x03000000 {
        let imm = ((w >> 4) & 0xF000) | (w & 0xFFF);
        return Some(format!("movw r{}, #{}", (w >> 12) & 15, imm));
    }
    if w & 0x0FF00000 == 0x03400000 {
        let imm = ((w >> 4) & 0xF000) | (w & 0xFFF);
        return Some(format!("movt r{}, #{}", (w >> 12) & 15, imm));
    }
    None
}

/// 16-bit Thumb
pub fn canon_t16(h: u16) -> Option<String> {
    if h & 0xF800 == 0x4800 {
        return Some(format!("ldr r{}, [pc, #{}]", (h >> 8) & 7, (h & 0xFF) as u32 * 4));
    }
    if h & 0xFF87 == 0x4700 {
        return Some(format!("bx r{}", (h >> 3) & 15));
    }
    if h == 0xBF00 {
        return Some("nop".into());
    }
    if h & 0xFF00 == 0x4600 {
        let rd = ((h >> 4) & 8) | (h & 7);
        let rm = (h >> 3) & 15;
        return Some(format!("mov r{}, r{}", rd, rm));
    }
    None
}
/// 32-bit Thumb (hw1 first)
pub fn canon_t32(hw1: u16, hw2: u16) -> Option<String> {
    if hw1 & 0xFF7F == 0xF85F {
        let u = (hw1 >> 7) & 1;
        return Some(format!("ldr.w r{}, [pc, #{}{}]", hw2 >> 12, if u == 1 { "" } else { "-" }, hw2 & 0xFFF));
    }
    if hw1 & 0xFBF0 == 0xF240 && hw2 & 0x8000 == 0 {
        let imm = (((hw1 & 0xF) as u32) << 12) | ((((hw1 >> 10) & 1) as u32) << 11) | ((((hw2 >> 12) & 7) as u32) << 8) | (hw2 & 0xFF) as u32;
        return Some(format!("movw r{}, #{}", (hw2 >> 8) & 15, imm));
    }
    if hw1 & 0xFBF0 == 0xF2C0 && hw2 & 0x8000 == 0 {
        let imm = (((hw1 & 0xF) as u32) << 12) | ((((hw1 >> 10) & 1) as u32) << 11) | ((((hw2 >> 12) & 7) as u32) << 8) | (hw2 & 0xFF) as u32;
        return Some(format!("movt r{}, #{}", (hw2 >> 8) & 15, imm));
    }
    if hw1 == 0xF3AF && hw2 == 0x8000 {
        return Some("nop.w".into());
    }
    if hw1 & 0xF800 == 0xF000 && hw2 & 0xD000 == 0x9000 {
        return Some(format!("b.w #{}", bw_offset(hw1, hw2)));
    }
    None
}

/// offset of the T4 encoding of B.W
fn bw_offset(hw1: u16, hw2: u16) -> i32 {
    let s = ((hw1 >> 10) & 1) as u32;
    let j1 = ((hw2 >> 13) & 1) as u32;
    let j2 = ((hw2 >> 11) & 1) as u32;
    let i1 = !(j1 ^ s) & 1;
    let i2 = !(j2 ^ s) & 1;
    let imm = (s << 24) | (i1 << 23) | (i2 << 22) | (((hw1 & 0x3FF) as u32) << 12) | (((hw2 & 0x7FF) as u32) << 1);
    ((imm << 7) as i32) >> 7
}

fn is_32bit_thumb(hw1: u16) -> bool {
    let top = hw1 >> 11;
    top == 0b11101 || top == 0b11110 || top == 0b11111
}

/// Execute from `entry` (address without state bit) in the given state.
pub fn walk(entry: u32, thumb: bool, read8: &dyn Fn(u32) -> u8) -> Walk {
    let rd16 = |a: u32| -> u16 { read8(a) as u16 | ((read8(a.wrapping_add(1)) as u16) << 8) };
    let rd32 = |a: u32| -> u32 { rd16(a) as u32 | ((rd16(a.wrapping_add(2)) as u32) << 16) };
    let mut pc = entry;
    let mut regs: BTreeMap<u8, u32> = BTreeMap::new();
    let mut known: BTreeSet<u8> = BTreeSet::new();
    let mut written = BTreeSet::new();
    let mut path = Vec::new();
    let mut literal = None;
    for _ in 0..32 {
        if !thumb {
            let w = rd32(pc);
            let text = match canon_a32(w) {
                Some(t) => t,
                None => return Walk { end: End::Unknown { at: pc, enc: w }, written, regs, path, literal },
            };
            path.push((pc, w, 2, text));
            if w & 0x0F7F0000 == 0x051F0000 {
                let u = (w >> 23) & 1;
                let rt = ((w >> 12) & 15) as u8;
                let imm = w & 0xFFF;
                let base = align4(pc.wrapping_add(8));
                let addr = if u == 1 { base.wrapping_add(imm) } else { base.wrapping_sub(imm) };
                let v = rd32(addr);
                literal = Some((addr, v));
                if rt == 15 {
                    return Walk { end: End::Arrived { addr: v & !1, thumb: v & 1 == 1 }, written, regs, path, literal };
                }
                regs.insert(rt, v);
                known.insert(rt);
                written.insert(rt);
                pc = pc.wrapping_add(4);
                continue;
            }
            if w & 0x0FFFFFF0 == 0x012FFF10 {
                let rm = (w & 15) as u8;
                if !known.contains(&rm) {
                    return Walk { end: End::Unknown { at: pc, enc: w }, written, regs, path, literal };
                }
                let v = regs[&rm];
                return Walk { end: End::Arrived { addr: v & !1, thumb: v & 1 == 1 }, written, regs, path, literal };
            }
            if w == 0xE320F000 {
                pc = pc.wrapping_add(4);
                continue;
            }
            if w & 0x0F000000 == 0x0A000000 {
                // B: PC-relative, never changes the instruction-set state
                let imm = ((w & 0x00FF_FFFF) << 8) as i32 >> 6;
                let dest = pc.wrapping_add(8).wrapping_add(imm as u32);
                return Walk { end: End::Arrived { addr: dest, thumb: false }, written, regs, path, literal };
            }
            if w & 0x0FFF0FF0 == 0x01A00000 {
                let rd = ((w >> 12) & 15) as u8;
                let rm = (w & 15) as u8;
                if rd != rm {
                    if !known.contains(&rm) {
                        return Walk { end: End::Unknown { at: pc, enc: w }, written, regs, path, literal };
                    }
                    let v = regs[&rm];
                    regs.insert(rd, v);
                    known.insert(rd);
                    written.insert(rd);
                }
                pc = pc.wrapping_add(4);
                continue;
            }
            let rd = ((w >> 12) & 15) as u8;
            let imm = ((w >> 4) & 0xF000) | (w & 0xFFF);
            if w & 0x0FF00000 == 0x03000000 {
                regs.insert(rd, imm);
                known.insert(rd);
            } else {
                let old = regs.get(&rd).cloned().unwrap_or(0);
                regs.insert(rd, (old & 0xFFFF) | (imm << 16));
            }
            written.insert(rd);
            pc = pc.wrapping_add(4);
        } else {
            let h1 = rd16(pc);
            if is_32bit_thumb(h1) {
                let h2 = rd16(pc.wrapping_add(2));
                let enc = ((h1 as u32) << 16) | h2 as u32;
                let text = match canon_t32(h1, h2) {
                    Some(t) => t,
                    None => return Walk { end: End::Unknown { at: pc, enc }, written, regs, path, literal },
                };
                path.push((pc, enc, 2, text));
                if h1 & 0xF800 == 0xF000 && h2 & 0xD000 == 0x9000 {
                    let dest = pc.wrapping_add(4).wrapping_add(bw_offset(h1, h2) as u32);
                    return Walk { end: End::Arrived { addr: dest, thumb: true }, written, regs, path, literal };
                }
                if h1 & 0xFF7F == 0xF85F {
                    let u = (h1 >> 7) & 1;
                    let rt = (h2 >> 12) as u8;
                    let imm = (h2 & 0xFFF) as u32;
                    let base = align4(pc.wrapping_add(4));
                    let addr = if u == 1 { base.wrapping_add(imm) } else { base.wrapping_sub(imm) };
                    let v = rd32(addr);
                    literal = Some((addr, v));
                    if rt == 15 {
                        return Walk { end: End::Arrived { addr: v & !1, thumb: v & 1 == 1 }, written, regs, path, literal };
                    }
                    regs.insert(rt, v);
                    known.insert(rt);
                    written.insert(rt);
                } else if h1 & 0xFBF0 == 0xF240 || h1 & 0xFBF0 == 0xF2C0 {
                    let rd = ((h2 >> 8) & 15) as u8;
                    let imm = (((h1 & 0xF) as u32) << 12) | ((((h1 >> 10) & 1) as u32) << 11) | ((((h2 >> 12) & 7) as u32) << 8) | (h2 & 0xFF) as u32;
                    if h1 & 0xFBF0 == 0xF240 {
                        regs.insert(rd, imm);
                        known.insert(rd);
                    } else {
                        let old = regs.get(&rd).cloned().unwrap_or(0);
                        regs.insert(rd, (old & 0xFFFF) | (imm << 16));
                    }
                    written.insert(rd);
                }
                pc = pc.wrapping_add(4);
            } else {
                let text = match canon_t16(h1) {
                    Some(t) => t,
                    None => return Walk { end: End::Unknown { at: pc, enc: h1 as u32 }, written, regs, path, literal },
                };
                path.push((pc, h1 as u32, 1, text));
                if h1 & 0xF800 == 0x4800 {
                    let rt = ((h1 >> 8) & 7) as u8;
                    let imm = (h1 & 0xFF) as u32 * 4;
                    let addr = align4(pc.wrapping_add(4)).wrapping_add(imm);
                    let v = rd32(addr);
                    literal = Some((addr, v));
                    regs.insert(rt, v);
                    known.insert(rt);
                    written.insert(rt);
                } else if h1 & 0xFF87 == 0x4700 {
                    let rm = ((h1 >> 3) & 15) as u8;
                    if !known.contains(&rm) {
                        return Walk { end: End::Unknown { at: pc, enc: h1 as u32 }, written, regs, path, literal };
                    }
                    let v = regs[&rm];
                    return Walk { end: End::Arrived { addr: v & !1, thumb: v & 1 == 1 }, written, regs, path, literal };
                } else if h1 & 0xFF00 == 0x4600 {
                    let rd = (((h1 >> 4) & 8) | (h1 & 7)) as u8;
                    let rm = ((h1 >> 3) & 15) as u8;
                    if rd != rm {
                        if !known.contains(&rm) {
                            return Walk { end: End::Unknown { at: pc, enc: h1 as u32 }, written, regs, path, literal };
                        }
                        let v = regs[&rm];
                        regs.insert(rd, v);
                        known.insert(rd);
                        written.insert(rd);
                    }
                }
                pc = pc.wrapping_add(2);
            }
        }
    }
    Walk { end: End::TooLong, written, regs, path, literal }
}
