//! The lock protocol of injectorpp without any machine-code patching (public API only), small enough
//! for Miri: constructor, preventer, exits by drop and by panic, poison recovery, verifier drop while
//! unwinding. Run under `cargo +nightly miri run` with -Zmiri-many-seeds: Miri's scheduler explores
//! thread interleavings and reports data races and undefined behaviour on the lock itself; the plain
//! cell below is only protected by the library's lock, so a missing happens-before is a data race.
use injectorpp::interface::injector::*;
use std::sync::atomic::{AtomicI64, AtomicUsize, Ordering};

static HOLDERS: AtomicI64 = AtomicI64::new(0);
static mut PLAIN: u64 = 0;
static ACQ: AtomicUsize = AtomicUsize::new(0);
static BAD: AtomicUsize = AtomicUsize::new(0);
static COUNTER: AtomicUsize = AtomicUsize::new(0);

struct Mark;
impl Drop for Mark {
    fn drop(&mut self) {
        HOLDERS.fetch_sub(1, Ordering::SeqCst);
    }
}

fn scope(kind: usize) {
    enum G {
        I(InjectorPP),
        P(Preventer),
    }
    let _g = if kind % 2 == 0 { G::I(InjectorPP::new()) } else { G::P(InjectorPP::prevent()) };
    if HOLDERS.fetch_add(1, Ordering::SeqCst) != 0 {
        BAD.fetch_add(1, Ordering::SeqCst);
    }
    let _m = Mark; // dropped before the guard
    ACQ.fetch_add(1, Ordering::SeqCst);
    unsafe {
        let p = std::ptr::addr_of_mut!(PLAIN);
        *p += 1;
    }
    if let G::P(p) = &_g {
        assert!(p.is_active());
    }
    if kind >= 2 {
        // a pending, unsatisfied expectation being dropped while unwinding must not raise a second panic
        let _v = CallCountVerifier::WithCount { counter: &COUNTER, expected: 3 };
        panic!("leave by panic");
    }
}

fn main() {
    std::panic::set_hook(Box::new(|_| {}));
    let threads = 3;
    let iters = 3;
    let hs: Vec<_> = (0..threads)
        .map(|t| {
            std::thread::spawn(move || {
                for i in 0..iters {
                    let kind = (t + i) % 4;
                    let _ = std::panic::catch_unwind(|| scope(kind));
                }
            })
        })
        .collect();
    for h in hs {
        h.join().unwrap();
    }
    // a verifier that is satisfied, and one that is not (must panic exactly once when not unwinding)
    COUNTER.store(3, Ordering::SeqCst);
    drop(CallCountVerifier::WithCount { counter: &COUNTER, expected: 3 });
    let r = std::panic::catch_unwind(|| drop(CallCountVerifier::WithCount { counter: &COUNTER, expected: 4 }));
    let total = unsafe { *std::ptr::addr_of!(PLAIN) };
    if BAD.load(Ordering::SeqCst) != 0 || total != (threads * iters) as u64 || ACQ.load(Ordering::SeqCst) != threads * iters || r.is_ok() {
        println!("LOCKPROTO-VIOLATION bad={} plain={} acq={} unsatisfied_verifier_panicked={}", BAD.load(Ordering::SeqCst), total, ACQ.load(Ordering::SeqCst), r.is_err());
    } else {
        println!("lockproto ok acquisitions={}", total);
    }
}
