//! Append-only case log written with plain write(2) so that it survives SIGSEGV/SIGABRT of the
//! child, plus a tiny JSON builder (no external crates).
use std::sync::atomic::{AtomicI32, Ordering};

static OUT_FD: AtomicI32 = AtomicI32::new(1);

pub fn open(path: &str) {
    let c = std::ffi::CString::new(path).unwrap();
    let fd = unsafe {
        libc::open(
            c.as_ptr(),
            libc::O_WRONLY | libc::O_CREAT | libc::O_APPEND,
            0o644 as libc::c_uint,
        )
    };
    if fd < 0 {
        eprintln!("HARNESS-ERROR cannot open {path}");
        std::process::exit(2);
    }
    OUT_FD.store(fd, Ordering::SeqCst);
}

/// the descriptor the case log is written to
pub fn fd() -> i32 {
    OUT_FD.load(Ordering::SeqCst)
}

pub fn line(s: &str) {
    let fd = OUT_FD.load(Ordering::SeqCst);
    let mut buf = Vec::with_capacity(s.len() + 1);
    buf.extend_from_slice(s.as_bytes());
    buf.push(b'\n');
    let mut off = 0;
    while off < buf.len() {
        let n = unsafe { libc::write(fd, buf[off..].as_ptr() as *const _, buf.len() - off) };
        if n <= 0 {
            break;
        }
        off += n as usize;
    }
}

/// raw write of pre-formatted bytes (usable from inside an interposed system call)
pub fn raw(b: &[u8]) {
    let fd = OUT_FD.load(Ordering::SeqCst);
    let mut off = 0;
    while off < b.len() {
        let n = unsafe { libc::write(fd, b[off..].as_ptr() as *const _, b.len() - off) };
        if n <= 0 {
            break;
        }
        off += n as usize;
    }
}

pub fn esc(s: &str) -> String {
    let mut o = String::with_capacity(s.len() + 2);
    o.push('"');
    for c in s.chars() {
        match c {
            '"' => o.push_str("\\\""),
            '\\' => o.push_str("\\\\"),
            '\n' => o.push_str("\\n"),
            '\r' => o.push_str("\\r"),
            '\t' => o.push_str("\\t"),
            c if (c as u32) < 0x20 => o.push_str(&format!("\\u{:04x}", c as u32)),
            c => o.push(c),
        }
    }
    o.push('"');
    o
}

/// JSON object builder.
#[derive(Clone, Default)]
pub struct J {
    parts: Vec<String>,
}
impl J {
    pub fn new() -> J {
        J { parts: Vec::new() }
    }
    pub fn s(mut self, k: &str, v: &str) -> J {
        self.parts.push(format!("{}:{}", esc(k), esc(v)));
        self
    }
    pub fn n<T: std::fmt::Display>(mut self, k: &str, v: T) -> J {
        self.parts.push(format!("{}:{}", esc(k), v));
        self
    }
    pub fn x(mut self, k: &str, v: usize) -> J {
        self.parts.push(format!("{}:\"0x{:x}\"", esc(k), v));
        self
    }
    pub fn b(mut self, k: &str, v: bool) -> J {
        self.parts.push(format!("{}:{}", esc(k), v));
        self
    }
    pub fn raw(mut self, k: &str, v: &str) -> J {
        self.parts.push(format!("{}:{}", esc(k), v));
        self
    }
    pub fn o(self, k: &str, v: J) -> J {
        let s = v.done();
        self.raw(k, &s)
    }
    pub fn arr_s(self, k: &str, v: &[String]) -> J {
        let s = format!("[{}]", v.iter().map(|x| esc(x)).collect::<Vec<_>>().join(","));
        self.raw(k, &s)
    }
    pub fn arr_raw(self, k: &str, v: &[String]) -> J {
        let s = format!("[{}]", v.join(","));
        self.raw(k, &s)
    }
    pub fn done(&self) -> String {
        format!("{{{}}}", self.parts.join(","))
    }
}

pub fn hex(b: &[u8]) -> String {
    b.iter().map(|x| format!("{:02x}", x)).collect::<Vec<_>>().join("")
}

/// Record written before a case starts; a crash is attributed to the last intent with no outcome.
pub fn intent(i: u64, class: &str, desc: &J) {
    line(
        &J::new()
            .s("t", "intent")
            .n("i", i)
            .s("class", class)
            .raw("desc", &desc.done())
            .done(),
    );
}

#[derive(Clone, Copy, PartialEq, Eq, Debug)]
pub enum Verdict {
    Held,
    Violated,
    Inconclusive,
}
impl Verdict {
    pub fn as_str(&self) -> &'static str {
        match self {
            Verdict::Held => "held",
            Verdict::Violated => "violated",
            Verdict::Inconclusive => "inconclusive",
        }
    }
}

/// Record written after a case was judged. `sig` is the stable signature of the failure class
/// (used to match known findings); `class` is the coverage class of the case.
pub fn outcome(i: u64, class: &str, v: Verdict, sig: &str, detail: &J) {
    line(
        &J::new()
            .s("t", "outcome")
            .n("i", i)
            .s("class", class)
            .s("verdict", v.as_str())
            .s("sig", sig)
            .raw("detail", &detail.done())
            .done(),
    );
}

pub fn summary(j: &J) {
    line(&J::new().s("t", "summary").raw("obs", &j.done()).done());
}
