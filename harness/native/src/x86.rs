//! M4 (x86-64 part) — a small interpreter for the jump idioms a trampoline can sensibly use,
//! written from the Intel SDM, not from the emitter. Unknown encodings are reported as Unknown
//! (=> inconclusive), never as a violation.
#![allow(dead_code)]

#[derive(Debug, Clone, PartialEq)]
pub enum End {
    /// control arrived at `want` (first byte)
    Landed,
    /// executed `ret` with these known register values (boolean stub etc.)
    Ret { rax: Option<u64>, written: Vec<&'static str> },
    /// a decodable non-branch instruction sequence led somewhere that is not `want`
    Stopped { at: usize },
    Unknown { at: usize, bytes: Vec<u8> },
    Unmapped { at: usize },
    Loop,
}

#[derive(Debug, Clone)]
pub struct Walk {
    pub end: End,
    /// (address, mnemonic) of every instruction executed
    pub path: Vec<(usize, String)>,
    /// registers written before arrival (other than rip)
    pub written: Vec<&'static str>,
    pub words: Vec<Vec<u8>>,
}

fn rd(read: &dyn Fn(usize, usize) -> Option<Vec<u8>>, a: usize, n: usize) -> Option<Vec<u8>> {
    read(a, n)
}

const R64: [&str; 8] = ["rax", "rcx", "rdx", "rbx", "rsp", "rbp", "rsi", "rdi"];
const R64X: [&str; 8] = ["r8", "r9", "r10", "r11", "r12", "r13", "r14", "r15"];

/// Follow control from `start` until it arrives at `want`, returns, or does something unknown.
pub fn follow(start: usize, want: usize, read: &dyn Fn(usize, usize) -> Option<Vec<u8>>) -> Walk {
    follow_ex(start, want, read, None)
}

/// Like `follow`; additionally stops (End::Stopped) as soon as control enters `stop_in` = [lo, hi)
/// after at least one branch, without interpreting anything there.
pub fn follow_ex(start: usize, want: usize, read: &dyn Fn(usize, usize) -> Option<Vec<u8>>, stop_in: Option<(usize, usize)>) -> Walk {
    let mut pc = start;
    let mut path = Vec::new();
    let mut written: Vec<&'static str> = Vec::new();
    let mut words = Vec::new();
    // symbolic register file: only constants we have seen loaded
    let mut regs: std::collections::HashMap<&'static str, u64> = std::collections::HashMap::new();
    let mut stack: Vec<u64> = Vec::new();
    let mut moved = false;
    for _ in 0..64 {
        if pc == want && (moved || start == want) {
            return Walk { end: End::Landed, path, written, words };
        }
        if let Some((lo, hi)) = stop_in {
            if moved && pc >= lo && pc < hi {
                return Walk { end: End::Stopped { at: pc }, path, written, words };
            }
        }
        let mut got = None;
        for n in (1..=16usize).rev() {
            if let Some(b) = rd(read, pc, n) {
                got = Some(b);
                break;
            }
        }
        let b = match got {
            Some(b) => b,
            None => return Walk { end: End::Unmapped { at: pc }, path, written, words },
        };
        let mut i = 0;
        // endbr64
        if b.len() >= 4 && b[0..4] == [0xF3, 0x0F, 0x1E, 0xFA] {
            path.push((pc, "endbr64".into()));
            words.push(b[0..4].to_vec());
            pc += 4;
            moved = true;
            continue;
        }
        // nop forms
        if b[0] == 0x90 {
            path.push((pc, "nop".into()));
            words.push(vec![0x90]);
            pc += 1;
            moved = true;
            continue;
        }
        let mut rex: u8 = 0;
        if b[i] & 0xF0 == 0x40 {
            rex = b[i];
            i += 1;
        }
        let need = |n: usize| b.len() >= i + n;
        let op = b[i];
        match op {
            0xE9 if rex == 0 && need(5) => {
                let rel = i32::from_le_bytes([b[i + 1], b[i + 2], b[i + 3], b[i + 4]]) as i64;
                let dest = (pc as i64).wrapping_add(5).wrapping_add(rel) as usize;
                path.push((pc, format!("jmp 0x{:x}", dest)));
                words.push(b[0..5].to_vec());
                pc = dest;
                moved = true;
            }
            0xEB if rex == 0 && need(2) => {
                let rel = b[i + 1] as i8 as i64;
                let dest = (pc as i64).wrapping_add(2).wrapping_add(rel) as usize;
                path.push((pc, format!("jmp short 0x{:x}", dest)));
                words.push(b[0..2].to_vec());
                pc = dest;
                moved = true;
            }
            // mov r64, imm64  (REX.W B8+r)
            0xB8..=0xBF if rex & 0x08 != 0 && need(9) => {
                let r = (op - 0xB8) as usize;
                let name = if rex & 1 != 0 { R64X[r] } else { R64[r] };
                let mut imm = [0u8; 8];
                imm.copy_from_slice(&b[i + 1..i + 9]);
                let v = u64::from_le_bytes(imm);
                regs.insert(name, v);
                if !written.contains(&name) {
                    written.push(name);
                }
                path.push((pc, format!("mov {}, 0x{:x}", name, v)));
                words.push(b[0..i + 9].to_vec());
                pc += i + 9;
                moved = true;
            }
            // mov r32, imm32 (B8+r) zero-extends
            0xB8..=0xBF if rex & 0x08 == 0 && need(5) => {
                let r = (op - 0xB8) as usize;
                let name = if rex & 1 != 0 { R64X[r] } else { R64[r] };
                let v = u32::from_le_bytes([b[i + 1], b[i + 2], b[i + 3], b[i + 4]]) as u64;
                regs.insert(name, v);
                if !written.contains(&name) {
                    written.push(name);
                }
                path.push((pc, format!("mov {}(32), 0x{:x}", name, v)));
                words.push(b[0..i + 5].to_vec());
                pc += i + 5;
                moved = true;
            }
            // mov r/m64, imm32 sign-extended (REX.W C7 /0) register-direct only
            0xC7 if need(6) && (b[i + 1] & 0xF8) == 0xC0 => {
                let r = (b[i + 1] & 7) as usize;
                let name = if rex & 1 != 0 { R64X[r] } else { R64[r] };
                let imm = i32::from_le_bytes([b[i + 2], b[i + 3], b[i + 4], b[i + 5]]);
                let v = if rex & 0x08 != 0 { imm as i64 as u64 } else { imm as u32 as u64 };
                regs.insert(name, v);
                if !written.contains(&name) {
                    written.push(name);
                }
                path.push((pc, format!("mov {}, {}", name, imm)));
                words.push(b[0..i + 6].to_vec());
                pc += i + 6;
                moved = true;
            }
            // mov al, imm8
            0xB0 if rex == 0 && need(2) => {
                let old = regs.get("rax").cloned();
                if let Some(o) = old {
                    regs.insert("rax", (o & !0xff) | b[i + 1] as u64);
                } else {
                    // only al known: remember in a pseudo register
                    regs.insert("al", b[i + 1] as u64);
                }
                if !written.contains(&"rax") {
                    written.push("rax");
                }
                path.push((pc, format!("mov al, {}", b[i + 1])));
                words.push(b[0..2].to_vec());
                pc += 2;
                moved = true;
            }
            // xor eax, eax (31 C0 / 33 C0)
            0x31 | 0x33 if need(2) && b[i + 1] == 0xC0 && rex & 0x05 == 0 => {
                regs.insert("rax", 0);
                if !written.contains(&"rax") {
                    written.push("rax");
                }
                path.push((pc, "xor eax, eax".into()));
                words.push(b[0..i + 2].to_vec());
                pc += i + 2;
                moved = true;
            }
            // FF /4 jmp r/m64
            0xFF if need(2) => {
                let modrm = b[i + 1];
                let reg = (modrm >> 3) & 7;
                let md = modrm >> 6;
                let rm = (modrm & 7) as usize;
                if reg == 4 && md == 3 {
                    let name = if rex & 1 != 0 { R64X[rm] } else { R64[rm] };
                    match regs.get(name) {
                        Some(&v) => {
                            path.push((pc, format!("jmp {}", name)));
                            words.push(b[0..i + 2].to_vec());
                            pc = v as usize;
                            moved = true;
                        }
                        None => {
                            return Walk { end: End::Unknown { at: pc, bytes: b[..8.min(b.len())].to_vec() }, path, written, words };
                        }
                    }
                } else if reg == 4 && md == 0 && rm == 5 && need(6) {
                    // jmp [rip+disp32]
                    let disp = i32::from_le_bytes([b[i + 2], b[i + 3], b[i + 4], b[i + 5]]) as i64;
                    let slot = (pc as i64 + (i as i64) + 6 + disp) as usize;
                    match rd(read, slot, 8) {
                        Some(w) => {
                            let mut q = [0u8; 8];
                            q.copy_from_slice(&w);
                            let dest = u64::from_le_bytes(q) as usize;
                            path.push((pc, format!("jmp [rip+{}] -> 0x{:x}", disp, dest)));
                            words.push(b[0..i + 6].to_vec());
                            pc = dest;
                            moved = true;
                        }
                        None => return Walk { end: End::Unmapped { at: slot }, path, written, words },
                    }
                } else {
                    return Walk { end: End::Unknown { at: pc, bytes: b[..8.min(b.len())].to_vec() }, path, written, words };
                }
            }
            // push imm32 (68) — push/ret idiom
            0x68 if rex == 0 && need(5) => {
                let imm = i32::from_le_bytes([b[i + 1], b[i + 2], b[i + 3], b[i + 4]]) as i64 as u64;
                stack.push(imm);
                path.push((pc, format!("push 0x{:x}", imm)));
                words.push(b[0..5].to_vec());
                pc += 5;
                moved = true;
            }
            // push r64 (50+r)
            0x50..=0x57 => {
                let r = (op - 0x50) as usize;
                let name = if rex & 1 != 0 { R64X[r] } else { R64[r] };
                match regs.get(name) {
                    Some(&v) => {
                        stack.push(v);
                        path.push((pc, format!("push {}", name)));
                        words.push(b[0..i + 1].to_vec());
                        pc += i + 1;
                        moved = true;
                    }
                    None => {
                        // a push of an unknown register: this is ordinary function prologue
                        return Walk { end: End::Stopped { at: pc }, path, written, words };
                    }
                }
            }
            0xC3 if rex == 0 => {
                path.push((pc, "ret".into()));
                words.push(vec![0xC3]);
                if let Some(v) = stack.pop() {
                    pc = v as usize;
                    moved = true;
                } else {
                    let rax = regs.get("rax").cloned().or_else(|| regs.get("al").cloned());
                    return Walk { end: End::Ret { rax, written: written.clone() }, path, written, words };
                }
            }
            _ => {
                return Walk { end: End::Unknown { at: pc, bytes: b[..8.min(b.len())].to_vec() }, path, written, words };
            }
        }
    }
    Walk { end: End::Loop, path, written, words }
}

