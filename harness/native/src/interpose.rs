//! M1 — libc interposers and event log.
//!
//! The harness executable defines `mmap`, `munmap`, `mprotect` and `__clear_cache` itself, so the
//! static link binds injectorpp's (and std's) references to these definitions. Each forwards to the
//! raw system call and appends a record to a fixed ring. Nothing here allocates.
//! The harness's own mappings go through `sys_*` below and are never recorded.
#![allow(dead_code)]
use std::cell::Cell;
use std::sync::atomic::{AtomicBool, AtomicI64, AtomicU32, AtomicU64, AtomicUsize, Ordering};

pub const EV_MMAP: u8 = 1;
pub const EV_MUNMAP: u8 = 2;
pub const EV_MPROTECT: u8 = 3;
pub const EV_FLUSH: u8 = 4;

pub const DATA_MAX: usize = 48;

#[derive(Clone, Copy)]
#[repr(C)]
pub struct Event {
    pub seq: u64,
    pub tid: u32,
    pub kind: u8,
    pub in_lib: u8,
    pub injected: u8,
    pub datalen: u8,
    pub a0: usize,
    pub a1: usize,
    pub prot: i32,
    pub flags: i32,
    pub res: isize,
    pub err: i32,
    pub data: [u8; DATA_MAX],
}
const EMPTY: Event = Event {
    seq: 0,
    tid: 0,
    kind: 0,
    in_lib: 0,
    injected: 0,
    datalen: 0,
    a0: 0,
    a1: 0,
    prot: 0,
    flags: 0,
    res: 0,
    err: 0,
    data: [0; DATA_MAX],
};

pub const RING: usize = 1 << 19;
static mut EVENTS: [Event; RING] = [EMPTY; RING];
static HEAD: AtomicU64 = AtomicU64::new(0);
/// set once a slot has been fully written (seq+1), so a reader can tell torn slots
static mut READY: [AtomicU64; RING] = [const { AtomicU64::new(0) }; RING];

pub static LOGGING: AtomicBool = AtomicBool::new(true);

thread_local! {
    static IN_LIB: Cell<u32> = const { Cell::new(0) };
    static TID: Cell<u32> = const { Cell::new(0) };
}
static NEXT_TID: AtomicU32 = AtomicU32::new(1);

pub fn tid() -> u32 {
    TID.with(|t| {
        if t.get() == 0 {
            t.set(NEXT_TID.fetch_add(1, Ordering::SeqCst));
        }
        t.get()
    })
}

/// RAII marker: "this thread is inside an injectorpp API call (or dropping an injector)".
pub struct LibScope;
impl LibScope {
    pub fn enter() -> LibScope {
        IN_LIB.with(|c| c.set(c.get() + 1));
        LibScope
    }
}
impl Drop for LibScope {
    fn drop(&mut self) {
        IN_LIB.with(|c| c.set(c.get() - 1));
    }
}
pub fn in_lib() -> bool {
    IN_LIB.try_with(|c| c.get() > 0).unwrap_or(false)
}
/// run `f` attributed to the library
pub fn lib<R>(f: impl FnOnce() -> R) -> R {
    let _s = LibScope::enter();
    f()
}

// ---------------------------------------------------------------- counters (always on)
pub static N_MMAP: AtomicU64 = AtomicU64::new(0);
pub static N_MMAP_EXEC: AtomicU64 = AtomicU64::new(0);
pub static N_MMAP_EXEC_OK: AtomicU64 = AtomicU64::new(0);
pub static N_MUNMAP: AtomicU64 = AtomicU64::new(0);
pub static N_MUNMAP_LIB: AtomicU64 = AtomicU64::new(0);
pub static N_MPROTECT: AtomicU64 = AtomicU64::new(0);
pub static N_MPROTECT_LIB: AtomicU64 = AtomicU64::new(0);
pub static N_FLUSH: AtomicU64 = AtomicU64::new(0);
pub static N_INJECTED: AtomicU64 = AtomicU64::new(0);
pub static N_DELAYS: AtomicU64 = AtomicU64::new(0);

// ---------------------------------------------------------------- fault plan
/// kinds for plans
pub const K_MMAP_EXEC: usize = 0;
pub const K_MPROTECT: usize = 1;
pub const K_MUNMAP: usize = 2;
pub const K_FLUSH: usize = 3;
pub const NK: usize = 4;

/// calls (of that kind, made inside the library) with index in [FROM, TO) fail. Index counts from
/// the moment the plan was armed.
static FAIL_FROM: [AtomicI64; NK] = [const { AtomicI64::new(-1) }; NK];
static FAIL_TO: [AtomicI64; NK] = [const { AtomicI64::new(-1) }; NK];
/// random plan: fail when hash(seed, idx) % 256 < P
static FAIL_P: [AtomicU32; NK] = [const { AtomicU32::new(0) }; NK];
static FAIL_SEED: AtomicU64 = AtomicU64::new(0);
static PLAN_IDX: [AtomicI64; NK] = [const { AtomicI64::new(0) }; NK];
/// errno reported by injected mmap failures
pub static FAIL_ERRNO: AtomicI64 = AtomicI64::new(libc::ENOMEM as i64);
/// bounded progress for a search loop: more library executable-mmap attempts than this within one armed
/// case means the search does not terminate; the pre-formatted outcome line is written and the child exits
pub static ATTEMPT_CAP: AtomicI64 = AtomicI64::new(0);
static ATTEMPTS: AtomicI64 = AtomicI64::new(0);
static mut CAP_LINE: [u8; 2048] = [0; 2048];
static CAP_LINE_LEN: AtomicUsize = AtomicUsize::new(0);

#[allow(static_mut_refs)]
pub fn arm_attempt_cap(cap: i64, outcome_line: &str) {
    let b = outcome_line.as_bytes();
    let n = b.len().min(2046);
    unsafe {
        CAP_LINE[..n].copy_from_slice(&b[..n]);
        CAP_LINE[n] = b'\n';
    }
    CAP_LINE_LEN.store(n + 1, Ordering::SeqCst);
    ATTEMPTS.store(0, Ordering::SeqCst);
    ATTEMPT_CAP.store(cap, Ordering::SeqCst);
}
pub fn disarm_attempt_cap() {
    ATTEMPT_CAP.store(0, Ordering::SeqCst);
}

/// library mprotect calls whose page range covers this address fail (0 = off): "the OS refuses to make THIS
/// page writable", whatever the order and granularity in which the library asks
pub static FAIL_MPROTECT_PAGE: AtomicUsize = AtomicUsize::new(0);
/// library mprotect calls asking for exactly this protection fail (-1 = off): an execmem / W^X policy that lets
/// pages be made writable but refuses to make (or re-make) them executable, or the other way round
pub static FAIL_MPROTECT_PROT: AtomicI64 = AtomicI64::new(-1);

pub fn arm_fail_range(kind: usize, from: i64, to: i64) {
    PLAN_IDX[kind].store(0, Ordering::SeqCst);
    FAIL_P[kind].store(0, Ordering::SeqCst);
    FAIL_FROM[kind].store(from, Ordering::SeqCst);
    FAIL_TO[kind].store(to, Ordering::SeqCst);
}
pub fn arm_fail_random(kind: usize, p256: u32, seed: u64) {
    PLAN_IDX[kind].store(0, Ordering::SeqCst);
    FAIL_FROM[kind].store(-1, Ordering::SeqCst);
    FAIL_TO[kind].store(-1, Ordering::SeqCst);
    FAIL_SEED.store(seed, Ordering::SeqCst);
    FAIL_P[kind].store(p256, Ordering::SeqCst);
}
pub fn disarm_all() {
    for k in 0..NK {
        FAIL_FROM[k].store(-1, Ordering::SeqCst);
        FAIL_TO[k].store(-1, Ordering::SeqCst);
        FAIL_P[k].store(0, Ordering::SeqCst);
        PLAN_IDX[k].store(0, Ordering::SeqCst);
        DELAY_NS[k].store(0, Ordering::SeqCst);
    }
    FAIL_MPROTECT_PAGE.store(0, Ordering::SeqCst);
    FAIL_MPROTECT_PROT.store(-1, Ordering::SeqCst);
}
pub fn plan_calls(kind: usize) -> i64 {
    PLAN_IDX[kind].load(Ordering::SeqCst)
}
fn should_fail(kind: usize) -> bool {
    if !in_lib() {
        return false;
    }
    let idx = PLAN_IDX[kind].fetch_add(1, Ordering::SeqCst);
    let from = FAIL_FROM[kind].load(Ordering::SeqCst);
    let to = FAIL_TO[kind].load(Ordering::SeqCst);
    if from >= 0 && idx >= from && idx < to {
        return true;
    }
    let p = FAIL_P[kind].load(Ordering::SeqCst);
    if p > 0 {
        let h = crate::rng::hash64(FAIL_SEED.load(Ordering::SeqCst) ^ ((idx as u64) << 8) ^ kind as u64);
        return (h % 256) < p as u64;
    }
    false
}

// ---------------------------------------------------------------- delay plan
/// sleep this long inside library calls of that kind (before the real call)
pub static DELAY_NS: [AtomicU64; NK] = [const { AtomicU64::new(0) }; NK];
/// 0 = sleep, 1 = yield loop
pub fn set_delay(kind: usize, ns: u64) {
    DELAY_NS[kind].store(ns, Ordering::SeqCst);
}
fn maybe_delay(kind: usize) {
    let ns = DELAY_NS[kind].load(Ordering::Relaxed);
    if ns > 0 && in_lib() {
        N_DELAYS.fetch_add(1, Ordering::Relaxed);
        let ts = libc::timespec {
            tv_sec: (ns / 1_000_000_000) as libc::time_t,
            tv_nsec: (ns % 1_000_000_000) as libc::c_long,
        };
        unsafe {
            libc::nanosleep(&ts, std::ptr::null_mut());
        }
    }
}

// ---------------------------------------------------------------- ledger of library executable mappings
pub const LEDGER_MAX: usize = 4096;
static LEDGER_LOCK: AtomicBool = AtomicBool::new(false);
static mut LEDGER: [(usize, usize); LEDGER_MAX] = [(0, 0); LEDGER_MAX];
static LEDGER_N: AtomicUsize = AtomicUsize::new(0);
/// anomalies seen online
pub static A_FOREIGN_UNMAP: AtomicU64 = AtomicU64::new(0); // munmap in lib that hits no ledger entry
pub static A_LEN_MISMATCH: AtomicU64 = AtomicU64::new(0); // munmap with a different page-rounded length
pub static A_LAST_ADDR: AtomicUsize = AtomicUsize::new(0);
pub static A_LAST_LEN: AtomicUsize = AtomicUsize::new(0);
pub static LEDGER_PEAK: AtomicUsize = AtomicUsize::new(0);
pub static LEDGER_HITS: AtomicU64 = AtomicU64::new(0);

fn ledger_lock() {
    while LEDGER_LOCK
        .compare_exchange_weak(false, true, Ordering::Acquire, Ordering::Relaxed)
        .is_err()
    {
        std::hint::spin_loop();
    }
}
fn ledger_unlock() {
    LEDGER_LOCK.store(false, Ordering::Release);
}
fn page_round(n: usize) -> usize {
    (n + 4095) & !4095
}
#[allow(static_mut_refs)]
fn ledger_add(addr: usize, len: usize) {
    ledger_lock();
    let n = LEDGER_N.load(Ordering::Relaxed);
    if n < LEDGER_MAX {
        unsafe {
            LEDGER[n] = (addr, page_round(len));
        }
        LEDGER_N.store(n + 1, Ordering::Relaxed);
        if n + 1 > LEDGER_PEAK.load(Ordering::Relaxed) {
            LEDGER_PEAK.store(n + 1, Ordering::Relaxed);
        }
    }
    ledger_unlock();
}
/// Gives back [addr, addr+len) on behalf of the library. Returns
/// 0 = the range consists of one or more WHOLE ledger mappings (all removed) and, apart from them, only of pages
///     that are not mapped at all (several adjacent trampolines released by one call are fine),
/// 1 = it cuts a ledger mapping in part, or covers a ledger mapping plus memory somebody else has mapped,
/// 2 = it touches no ledger mapping.
#[allow(static_mut_refs)]
fn ledger_remove(addr: usize, len: usize) -> u8 {
    let end = addr.saturating_add(page_round(len));
    ledger_lock();
    let mut n = LEDGER_N.load(Ordering::Relaxed);
    let mut whole = 0usize;
    let mut covered = 0usize;
    let mut partial = false;
    let mut spans: [(usize, usize); 16] = [(0, 0); 16];
    let mut i = 0;
    while i < n {
        let (a, l) = unsafe { LEDGER[i] };
        let e = a + l;
        if a >= addr && e <= end {
            if whole < 16 {
                spans[whole] = (a, e);
            }
            whole += 1;
            covered += l;
            unsafe {
                LEDGER[i] = LEDGER[n - 1];
            }
            n -= 1;
            continue; // re-examine the entry moved into slot i
        } else if a < end && e > addr {
            partial = true;
            if a == addr {
                // same start, other length: the entry is gone as far as the bookkeeping goes
                unsafe {
                    LEDGER[i] = LEDGER[n - 1];
                }
                n -= 1;
                continue;
            }
        }
        i += 1;
    }
    LEDGER_N.store(n, Ordering::Relaxed);
    ledger_unlock();
    if partial {
        return 1;
    }
    if whole == 0 {
        return 2;
    }
    if covered == end - addr {
        return 0;
    }
    // the rest of the range: harmless only if nothing is mapped there
    let mut p = addr;
    while p < end {
        let in_span = spans.iter().take(whole.min(16)).any(|(a, e)| p >= *a && p < *e);
        if !in_span {
            let mut v = 0u8;
            let r = unsafe { libc::mincore(p as *mut libc::c_void, 4096, &mut v as *mut u8) };
            if r == 0 {
                return 1; // somebody's page lies inside the range the library gives back
            }
        }
        p += 4096;
    }
    0
}
/// The harness gives back what an injected munmap refusal left mapped (raw system call, not the library's doing)
/// and forgets it, so that the address space does not silt up over thousands of lifetimes.
pub fn harness_release_leftovers(keep: usize) -> usize {
    let all = ledger_snapshot();
    let mut n = 0;
    for &(a, l) in all.iter().skip(keep) {
        unsafe {
            sys_munmap(a, l);
        }
        let _ = ledger_remove(a, l);
        n += 1;
    }
    n
}
#[allow(static_mut_refs)]
pub fn ledger_snapshot() -> Vec<(usize, usize)> {
    ledger_lock();
    let n = LEDGER_N.load(Ordering::Relaxed);
    let mut v = Vec::new();
    // allocation happens under the spin lock, but the allocator never re-enters these hooks for
    // executable mappings, and no other thread can be inside ledger_* for long
    for i in 0..n {
        v.push(unsafe { LEDGER[i] });
    }
    ledger_unlock();
    v
}
pub fn ledger_len() -> usize {
    LEDGER_N.load(Ordering::SeqCst)
}
#[allow(static_mut_refs)]
pub fn ledger_contains_page(addr: usize) -> bool {
    ledger_lock();
    let n = LEDGER_N.load(Ordering::Relaxed);
    let mut hit = false;
    for i in 0..n {
        let (a, l) = unsafe { LEDGER[i] };
        if addr >= a && addr < a + l {
            hit = true;
            break;
        }
    }
    ledger_unlock();
    hit
}

// ---------------------------------------------------------------- event ring
#[allow(static_mut_refs)]
fn push(mut e: Event) {
    if !LOGGING.load(Ordering::Relaxed) {
        return;
    }
    let seq = HEAD.fetch_add(1, Ordering::SeqCst);
    e.seq = seq;
    e.tid = tid_noinit();
    let slot = (seq as usize) % RING;
    unsafe {
        READY[slot].store(0, Ordering::SeqCst);
        EVENTS[slot] = e;
        READY[slot].store(seq + 1, Ordering::SeqCst);
    }
}
fn tid_noinit() -> u32 {
    TID.try_with(|t| {
        if t.get() == 0 {
            t.set(NEXT_TID.fetch_add(1, Ordering::SeqCst));
        }
        t.get()
    })
    .unwrap_or(0)
}
pub fn mark() -> u64 {
    HEAD.load(Ordering::SeqCst)
}
/// events with seq in [from, now). `None` if the ring wrapped (too many events to keep).
#[allow(static_mut_refs)]
pub fn since(from: u64) -> Option<Vec<Event>> {
    let to = HEAD.load(Ordering::SeqCst);
    if to - from > RING as u64 {
        return None;
    }
    let mut v = Vec::with_capacity((to - from) as usize);
    for s in from..to {
        let slot = (s as usize) % RING;
        let mut spins = 0;
        loop {
            let r = unsafe { READY[slot].load(Ordering::SeqCst) };
            if r == s + 1 {
                break;
            }
            if r > s + 1 {
                return None;
            }
            spins += 1;
            if spins > 1_000_000 {
                return None;
            }
            std::hint::spin_loop();
        }
        v.push(unsafe { EVENTS[slot] });
    }
    Some(v)
}

// ---------------------------------------------------------------- raw system calls for the harness itself
pub unsafe fn sys_mmap(addr: usize, len: usize, prot: i32, flags: i32, fd: i32, off: i64) -> isize {
    let r = libc::syscall(libc::SYS_mmap, addr, len, prot, flags, fd, off);
    r as isize
}
pub unsafe fn sys_munmap(addr: usize, len: usize) -> i32 {
    libc::syscall(libc::SYS_munmap, addr, len) as i32
}
pub unsafe fn sys_mprotect(addr: usize, len: usize, prot: i32) -> i32 {
    libc::syscall(libc::SYS_mprotect, addr, len, prot) as i32
}
fn errno() -> i32 {
    unsafe { *libc::__errno_location() }
}
fn set_errno(e: i32) {
    unsafe {
        *libc::__errno_location() = e;
    }
}

// ---------------------------------------------------------------- the interposers
#[cfg(not(feature = "tsan"))]
#[no_mangle]
pub unsafe extern "C" fn mmap(
    addr: *mut libc::c_void,
    len: libc::size_t,
    prot: libc::c_int,
    flags: libc::c_int,
    fd: libc::c_int,
    off: libc::off_t,
) -> *mut libc::c_void {
    N_MMAP.fetch_add(1, Ordering::Relaxed);
    let exec_anon = (prot & libc::PROT_EXEC) != 0 && (flags & libc::MAP_ANONYMOUS) != 0;
    let lib = in_lib();
    let mut e = EMPTY;
    e.kind = EV_MMAP;
    e.in_lib = lib as u8;
    e.a0 = addr as usize;
    e.a1 = len;
    e.prot = prot;
    e.flags = flags;
    if exec_anon {
        N_MMAP_EXEC.fetch_add(1, Ordering::Relaxed);
        let cap = ATTEMPT_CAP.load(Ordering::Relaxed);
        if cap > 0 && lib && ATTEMPTS.fetch_add(1, Ordering::Relaxed) > cap {
            // the search has made far more attempts than its window has pages: it does not terminate
            #[allow(static_mut_refs)]
            {
                let n = CAP_LINE_LEN.load(Ordering::SeqCst);
                crate::out::raw(&CAP_LINE[..n]);
            }
            libc::_exit(75);
        }
        maybe_delay(K_MMAP_EXEC);
        if should_fail(K_MMAP_EXEC) {
            N_INJECTED.fetch_add(1, Ordering::Relaxed);
            e.injected = 1;
            e.res = -1;
            let en = FAIL_ERRNO.load(Ordering::Relaxed) as i32;
            e.err = en;
            push(e);
            set_errno(en);
            return libc::MAP_FAILED;
        }
    }
    let r = sys_mmap(addr as usize, len, prot, flags, fd, off as i64);
    let saved = errno();
    e.res = r;
    e.err = if r == -1 { saved } else { 0 };
    if exec_anon && r != -1 {
        N_MMAP_EXEC_OK.fetch_add(1, Ordering::Relaxed);
        ledger_add(r as usize, len);
    }
    push(e);
    set_errno(saved);
    r as *mut libc::c_void
}

#[cfg(not(feature = "tsan"))]
#[no_mangle]
pub unsafe extern "C" fn mmap64(
    addr: *mut libc::c_void,
    len: libc::size_t,
    prot: libc::c_int,
    flags: libc::c_int,
    fd: libc::c_int,
    off: libc::off_t,
) -> *mut libc::c_void {
    mmap(addr, len, prot, flags, fd, off)
}

/// page size reported to the LIBRARY by sysconf(_SC_PAGESIZE) (0 = the real one): kernels with 16 KiB and 64 KiB
/// pages exist; everything the library sizes by the page must still work when pages are larger than 4 KiB
pub static FAKE_PAGE_SIZE: AtomicI64 = AtomicI64::new(0);
static REAL_SYSCONF: AtomicUsize = AtomicUsize::new(0);

#[cfg(not(feature = "tsan"))]
#[no_mangle]
pub unsafe extern "C" fn sysconf(name: libc::c_int) -> libc::c_long {
    if name == libc::_SC_PAGESIZE {
        let f = FAKE_PAGE_SIZE.load(Ordering::Relaxed);
        if f > 0 && in_lib() {
            return f as libc::c_long;
        }
    }
    let mut real = REAL_SYSCONF.load(Ordering::Relaxed);
    if real == 0 {
        real = libc::dlsym(libc::RTLD_NEXT, b"sysconf\0".as_ptr() as *const libc::c_char) as usize;
        REAL_SYSCONF.store(real, Ordering::Relaxed);
    }
    if real == 0 {
        set_errno(libc::EINVAL);
        return -1;
    }
    let f: unsafe extern "C" fn(libc::c_int) -> libc::c_long = std::mem::transmute(real);
    f(name)
}

#[cfg(not(feature = "tsan"))]
#[no_mangle]
pub unsafe extern "C" fn munmap(addr: *mut libc::c_void, len: libc::size_t) -> libc::c_int {
    N_MUNMAP.fetch_add(1, Ordering::Relaxed);
    let lib = in_lib();
    let mut e = EMPTY;
    e.kind = EV_MUNMAP;
    e.in_lib = lib as u8;
    e.a0 = addr as usize;
    e.a1 = len;
    if lib {
        N_MUNMAP_LIB.fetch_add(1, Ordering::Relaxed);
        maybe_delay(K_MUNMAP);
        if should_fail(K_MUNMAP) {
            // the kernel refuses (as it does with ENOMEM at the mapping-count limit): nothing is unmapped
            N_INJECTED.fetch_add(1, Ordering::Relaxed);
            e.injected = 1;
            e.res = -1;
            e.err = libc::ENOMEM;
            push(e);
            set_errno(libc::ENOMEM);
            return -1;
        }
    }
    let hit = ledger_remove(addr as usize, len);
    match hit {
        0 => {
            LEDGER_HITS.fetch_add(1, Ordering::Relaxed);
        }
        1 => {
            A_LEN_MISMATCH.fetch_add(1, Ordering::Relaxed);
            A_LAST_ADDR.store(addr as usize, Ordering::Relaxed);
            A_LAST_LEN.store(len, Ordering::Relaxed);
        }
        _ => {
            if lib {
                A_FOREIGN_UNMAP.fetch_add(1, Ordering::Relaxed);
                A_LAST_ADDR.store(addr as usize, Ordering::Relaxed);
                A_LAST_LEN.store(len, Ordering::Relaxed);
            }
        }
    }
    e.flags = hit as i32;
    let r = sys_munmap(addr as usize, len);
    let saved = errno();
    e.res = r as isize;
    e.err = if r != 0 { saved } else { 0 };
    push(e);
    set_errno(saved);
    r
}

#[cfg(not(feature = "tsan"))]
#[no_mangle]
pub unsafe extern "C" fn mprotect(addr: *mut libc::c_void, len: libc::size_t, prot: libc::c_int) -> libc::c_int {
    N_MPROTECT.fetch_add(1, Ordering::Relaxed);
    let lib = in_lib();
    let mut e = EMPTY;
    e.kind = EV_MPROTECT;
    e.in_lib = lib as u8;
    e.a0 = addr as usize;
    e.a1 = len;
    e.prot = prot;
    if lib {
        N_MPROTECT_LIB.fetch_add(1, Ordering::Relaxed);
        maybe_delay(K_MPROTECT);
        let fp = FAIL_MPROTECT_PAGE.load(Ordering::SeqCst);
        let covers = fp != 0 && (addr as usize & !4095) <= fp && fp < ((addr as usize + len + 4095) & !4095);
        let by_prot = FAIL_MPROTECT_PROT.load(Ordering::SeqCst) == prot as i64;
        if should_fail(K_MPROTECT) || covers || by_prot {
            N_INJECTED.fetch_add(1, Ordering::Relaxed);
            e.injected = 1;
            e.res = -1;
            e.err = libc::EACCES;
            push(e);
            set_errno(libc::EACCES);
            return -1;
        }
    }
    let r = sys_mprotect(addr as usize, len, prot);
    let saved = errno();
    e.res = r as isize;
    e.err = if r != 0 { saved } else { 0 };
    push(e);
    set_errno(saved);
    r
}

/// `__clear_cache(start, end)`: a no-op on x86-64 (coherent instruction caches); the record keeps a
/// copy of the first bytes of the range as they are *at call time*.
#[no_mangle]
pub unsafe extern "C" fn __clear_cache(start: *mut u8, end: *mut u8) {
    N_FLUSH.fetch_add(1, Ordering::Relaxed);
    let lib = in_lib();
    if lib {
        maybe_delay(K_FLUSH);
    }
    let mut e = EMPTY;
    e.kind = EV_FLUSH;
    e.in_lib = lib as u8;
    e.a0 = start as usize;
    e.a1 = end as usize;
    let len = (end as usize).saturating_sub(start as usize);
    let n = len.min(DATA_MAX);
    // copy through process_vm_readv so that a bogus range cannot fault the monitor
    if n > 0 {
        let mut buf = [0u8; DATA_MAX];
        if crate::maps::safe_read(start as usize, &mut buf[..n]) {
            e.data = buf;
            e.datalen = n as u8;
        } else {
            e.datalen = 0;
            e.err = libc::EFAULT;
        }
    }
    push(e);
}

pub fn counters_json() -> crate::out::J {
    crate::out::J::new()
        .n("mmap", N_MMAP.load(Ordering::SeqCst))
        .n("mmap_exec", N_MMAP_EXEC.load(Ordering::SeqCst))
        .n("mmap_exec_ok", N_MMAP_EXEC_OK.load(Ordering::SeqCst))
        .n("munmap", N_MUNMAP.load(Ordering::SeqCst))
        .n("munmap_lib", N_MUNMAP_LIB.load(Ordering::SeqCst))
        .n("mprotect", N_MPROTECT.load(Ordering::SeqCst))
        .n("mprotect_lib", N_MPROTECT_LIB.load(Ordering::SeqCst))
        .n("flush", N_FLUSH.load(Ordering::SeqCst))
        .n("faults_injected", N_INJECTED.load(Ordering::SeqCst))
        .n("delays_injected", N_DELAYS.load(Ordering::SeqCst))
        .n("ledger_hits", LEDGER_HITS.load(Ordering::SeqCst))
        .n("ledger_peak", LEDGER_PEAK.load(Ordering::SeqCst))
        .n("foreign_unmaps", A_FOREIGN_UNMAP.load(Ordering::SeqCst))
        .n("len_mismatch_unmaps", A_LEN_MISMATCH.load(Ordering::SeqCst))
}
