//! vnative — the native monitoring harness. One executable, one sub-command per scenario.
//! It links the injectorpp crate from /repo (rebuilt from the working tree by every check) and
//! observes it from outside: interposed system calls (M1), executable-memory snapshots (M2),
//! synthetic code arenas and address-space shaping (M3), an independent x86 interpreter (M4),
//! register-file probes (M5), a panic observer (M6), a poll-counting executor (M7) and event-logging
//! fake! expressions (M8).
#![allow(clippy::all)]
#![allow(static_mut_refs)]

#[global_allocator]
static GLOBAL: delayalloc::DelayAlloc = delayalloc::DelayAlloc;
mod delayalloc;
mod arena;
mod interpose;
mod maps;
mod out;
mod panicobs;
mod probe;
mod rng;
mod scn;
mod x86;

#[derive(Clone, Debug)]
pub struct Ctx {
    pub scenario: String,
    pub seed: u64,
    pub thorough: bool,
    pub shard: u64,
    pub nshards: u64,
    pub from: u64,
    pub only: Option<u64>,
    pub n: u64,
    pub extra: Vec<(String, String)>,
}
impl Ctx {
    pub fn mine(&self, idx: u64) -> bool {
        if let Some(o) = self.only {
            return idx == o;
        }
        idx >= self.from && idx % self.nshards == self.shard
    }
    pub fn get(&self, k: &str) -> Option<&str> {
        self.extra.iter().find(|(a, _)| a == k).map(|(_, b)| b.as_str())
    }
    pub fn get_u(&self, k: &str, d: u64) -> u64 {
        self.get(k).and_then(|v| v.parse().ok()).unwrap_or(d)
    }
}

fn main() {
    let args: Vec<String> = std::env::args().collect();
    if args.len() < 2 {
        eprintln!("usage: vnative <scenario> [--seed N] [--tier quick|thorough] [--shard i/n] [--from K] [--only K] [--n N] [--out FILE] [--k v]...");
        std::process::exit(2);
    }
    let mut ctx = Ctx {
        scenario: args[1].clone(),
        seed: 1,
        thorough: false,
        shard: 0,
        nshards: 1,
        from: 0,
        only: None,
        n: 0,
        extra: Vec::new(),
    };
    let mut i = 2;
    while i < args.len() {
        let k = args[i].as_str();
        let v = args.get(i + 1).cloned().unwrap_or_default();
        match k {
            "--seed" => ctx.seed = v.parse().unwrap_or(1),
            "--tier" => ctx.thorough = v == "thorough",
            "--shard" => {
                let mut p = v.split('/');
                ctx.shard = p.next().unwrap().parse().unwrap();
                ctx.nshards = p.next().unwrap().parse().unwrap();
            }
            "--from" => ctx.from = v.parse().unwrap_or(0),
            "--only" => ctx.only = v.parse().ok(),
            "--n" => ctx.n = v.parse().unwrap_or(0),
            "--out" => out::open(&v),
            _ => {
                if let Some(name) = k.strip_prefix("--") {
                    ctx.extra.push((name.to_string(), v));
                }
            }
        }
        i += 2;
    }
    panicobs::install();
    let _ = interpose::tid();
    scn::run(&ctx);
}
