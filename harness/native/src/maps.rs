//! M2 — /proc/self/maps parser, executable-memory snapshotter and differ.
#![allow(dead_code)]
use std::io::Read;

#[derive(Clone, Debug)]
pub struct Map {
    pub start: usize,
    pub end: usize,
    pub perms: String,
    pub name: String,
}
impl Map {
    pub fn r(&self) -> bool {
        self.perms.as_bytes()[0] == b'r'
    }
    pub fn w(&self) -> bool {
        self.perms.as_bytes()[1] == b'w'
    }
    pub fn x(&self) -> bool {
        self.perms.as_bytes()[2] == b'x'
    }
}

pub fn parse() -> Vec<Map> {
    let mut s = String::new();
    std::fs::File::open("/proc/self/maps")
        .expect("maps")
        .read_to_string(&mut s)
        .expect("maps read");
    let mut v = Vec::new();
    for l in s.lines() {
        let mut it = l.split_whitespace();
        let range = it.next().unwrap_or("");
        let perms = it.next().unwrap_or("----").to_string();
        let _off = it.next();
        let _dev = it.next();
        let _ino = it.next();
        let name = it.next().unwrap_or("").to_string();
        let mut rr = range.split('-');
        let a = usize::from_str_radix(rr.next().unwrap_or("0"), 16).unwrap_or(0);
        let b = usize::from_str_radix(rr.next().unwrap_or("0"), 16).unwrap_or(0);
        v.push(Map {
            start: a,
            end: b,
            perms,
            name,
        });
    }
    v
}

/// Read memory of this process without risking a fault (EFAULT instead of SIGSEGV).
pub fn safe_read(addr: usize, buf: &mut [u8]) -> bool {
    let local = libc::iovec {
        iov_base: buf.as_mut_ptr() as *mut _,
        iov_len: buf.len(),
    };
    let remote = libc::iovec {
        iov_base: addr as *mut _,
        iov_len: buf.len(),
    };
    let n = unsafe { libc::process_vm_readv(libc::getpid(), &local, 1, &remote, 1, 0) };
    n == buf.len() as isize
}
pub fn read_vec(addr: usize, len: usize) -> Option<Vec<u8>> {
    let mut v = vec![0u8; len];
    if safe_read(addr, &mut v) {
        Some(v)
    } else {
        None
    }
}

/// Free gaps of the address space inside [lo, hi), computed from /proc/self/maps.
pub fn gaps(lo: usize, hi: usize) -> Vec<(usize, usize)> {
    let maps = parse();
    let mut out = Vec::new();
    let mut cur = lo;
    for m in &maps {
        if m.end <= cur {
            continue;
        }
        if m.start >= hi {
            break;
        }
        if m.start > cur {
            out.push((cur, m.start.min(hi)));
        }
        cur = cur.max(m.end);
        if cur >= hi {
            break;
        }
    }
    if cur < hi {
        out.push((cur, hi));
    }
    out
}

pub fn is_free(addr: usize, len: usize) -> bool {
    let maps = parse();
    !maps.iter().any(|m| m.start < addr + len && addr < m.end)
}

/// Snapshot of every readable executable mapping.
pub struct Snapshot {
    pub regions: Vec<(Map, Vec<u8>)>,
    pub skipped: Vec<String>,
    pub bytes: usize,
}

pub fn snapshot() -> Snapshot {
    let maps = parse();
    let mut regions = Vec::new();
    let mut skipped = Vec::new();
    let mut bytes = 0;
    for m in maps {
        if !m.x() {
            continue;
        }
        if !m.r() || m.name == "[vsyscall]" {
            skipped.push(format!("{:x}-{:x} {} {}", m.start, m.end, m.perms, m.name));
            continue;
        }
        let len = m.end - m.start;
        // plain loads: the mapping is readable by construction
        let mut v = vec![0u8; len];
        unsafe {
            std::ptr::copy_nonoverlapping(m.start as *const u8, v.as_mut_ptr(), len);
        }
        bytes += len;
        regions.push((m, v));
    }
    Snapshot {
        regions,
        skipped,
        bytes,
    }
}

impl Snapshot {
    /// the set of pages covered
    pub fn pages(&self) -> std::collections::BTreeSet<usize> {
        let mut s = std::collections::BTreeSet::new();
        for (m, _) in &self.regions {
            let mut p = m.start;
            while p < m.end {
                s.insert(p);
                p += 4096;
            }
        }
        s
    }
    pub fn byte_at(&self, addr: usize) -> Option<u8> {
        for (m, v) in &self.regions {
            if addr >= m.start && addr < m.end {
                return Some(v[addr - m.start]);
            }
        }
        None
    }
    pub fn name_of(&self, addr: usize) -> String {
        for (m, _) in &self.regions {
            if addr >= m.start && addr < m.end {
                return if m.name.is_empty() {
                    "[anon]".to_string()
                } else {
                    m.name.clone()
                };
            }
        }
        "?".to_string()
    }
}

pub struct Diff {
    /// addresses of bytes present in both snapshots whose value differs: (addr, old, new)
    pub changed: Vec<(usize, u8, u8)>,
    /// pages only in the new snapshot
    pub appeared: Vec<usize>,
    /// pages only in the old snapshot
    pub vanished: Vec<usize>,
    pub compared: usize,
}

pub fn diff(a: &Snapshot, b: &Snapshot) -> Diff {
    let mut changed = Vec::new();
    let mut compared = 0usize;
    // walk b's regions, look up the overlapping parts of a
    for (mb, vb) in &b.regions {
        for (ma, va) in &a.regions {
            let lo = ma.start.max(mb.start);
            let hi = ma.end.min(mb.end);
            if lo >= hi {
                continue;
            }
            let sa = &va[lo - ma.start..hi - ma.start];
            let sb = &vb[lo - mb.start..hi - mb.start];
            compared += sa.len();
            if sa != sb {
                for i in 0..sa.len() {
                    if sa[i] != sb[i] {
                        changed.push((lo + i, sa[i], sb[i]));
                    }
                }
            }
        }
    }
    let pa = a.pages();
    let pb = b.pages();
    let appeared = pb.difference(&pa).cloned().collect();
    let vanished = pa.difference(&pb).cloned().collect();
    Diff {
        changed,
        appeared,
        vanished,
        compared,
    }
}
