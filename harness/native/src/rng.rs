//! SplitMix64: every random choice of the harness is drawn from one of these, seeded from VERIF_SEED.
#[derive(Clone)]
pub struct Rng(pub u64);
impl Rng {
    pub fn new(seed: u64) -> Self {
        Rng(seed ^ 0x9E37_79B9_7F4A_7C15)
    }
    pub fn next(&mut self) -> u64 {
        self.0 = self.0.wrapping_add(0x9E37_79B9_7F4A_7C15);
        let mut z = self.0;
        z = (z ^ (z >> 30)).wrapping_mul(0xBF58_476D_1CE4_E5B9);
        z = (z ^ (z >> 27)).wrapping_mul(0x94D0_49BB_1331_11EB);
        z ^ (z >> 31)
    }
    pub fn below(&mut self, n: u64) -> u64 {
        if n == 0 {
            0
        } else {
            self.next() % n
        }
    }
    pub fn range(&mut self, lo: i64, hi_incl: i64) -> i64 {
        lo + self.below((hi_incl - lo + 1) as u64) as i64
    }
    pub fn chance(&mut self, num: u64, den: u64) -> bool {
        self.below(den) < num
    }
    pub fn pick<'a, T>(&mut self, v: &'a [T]) -> &'a T {
        &v[self.below(v.len() as u64) as usize]
    }
    pub fn fork(&mut self, tag: u64) -> Rng {
        Rng::new(self.next() ^ tag.wrapping_mul(0xD6E8_FEB8_6659_FD93))
    }
}
pub fn hash64(mut x: u64) -> u64 {
    x = (x ^ (x >> 30)).wrapping_mul(0xBF58_476D_1CE4_E5B9);
    x = (x ^ (x >> 27)).wrapping_mul(0x94D0_49BB_1331_11EB);
    x ^ (x >> 31)
}
