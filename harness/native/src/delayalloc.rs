//! Delay injection between a guard's critical sections: a pass-through global allocator that, for a thread
//! that armed it, sleeps in its next few `dealloc` calls. Dropping an injector frees its vectors one after the
//! other; a delay there stretches the instants between "patches restored", "lock released" and "expectations
//! verified" from nanoseconds to milliseconds, so that another thread reliably gets in between if the code
//! lets it. Off (one relaxed load per free) unless a scenario arms it.
use std::alloc::{GlobalAlloc, Layout, System};
use std::cell::Cell;
use std::sync::atomic::{AtomicU64, Ordering};

pub struct DelayAlloc;
static ANY_ARMED: AtomicU64 = AtomicU64::new(0);
pub static DELAYED_FREES: AtomicU64 = AtomicU64::new(0);
thread_local! {
    static LEFT: Cell<u32> = const { Cell::new(0) };
    static MICROS: Cell<u32> = const { Cell::new(0) };
}

unsafe impl GlobalAlloc for DelayAlloc {
    unsafe fn alloc(&self, l: Layout) -> *mut u8 {
        System.alloc(l)
    }
    unsafe fn alloc_zeroed(&self, l: Layout) -> *mut u8 {
        System.alloc_zeroed(l)
    }
    unsafe fn realloc(&self, p: *mut u8, l: Layout, n: usize) -> *mut u8 {
        System.realloc(p, l, n)
    }
    unsafe fn dealloc(&self, p: *mut u8, l: Layout) {
        if ANY_ARMED.load(Ordering::Relaxed) != 0 {
            let us = LEFT
                .try_with(|c| {
                    let n = c.get();
                    if n > 0 {
                        c.set(n - 1);
                        MICROS.try_with(|m| m.get()).unwrap_or(0)
                    } else {
                        0
                    }
                })
                .unwrap_or(0);
            if us > 0 {
                DELAYED_FREES.fetch_add(1, Ordering::Relaxed);
                let ts = libc::timespec { tv_sec: 0, tv_nsec: us as i64 * 1000 };
                libc::nanosleep(&ts, std::ptr::null_mut());
            }
        }
        System.dealloc(p, l)
    }
}

/// the next `frees` deallocations of THIS thread sleep `micros` each
pub fn arm(frees: u32, micros: u32) {
    MICROS.with(|m| m.set(micros));
    LEFT.with(|c| c.set(frees));
    ANY_ARMED.fetch_add(1, Ordering::SeqCst);
}
pub fn disarm() {
    LEFT.with(|c| c.set(0));
    ANY_ARMED.fetch_sub(1, Ordering::SeqCst);
}
