//! M5 — register-file probes (x86-64 System V).
//!
//! `vprobe_call` loads the six integer argument registers, xmm0-7 (ymm0-7 where the CPU has AVX), four stack arguments, the
//! callee-saved set and rax/r10/r11 from the static record VPROBE_IN, puts canaries above the
//! outgoing stack arguments, calls the target through a memory operand (`call [rip+VPROBE_TARGET]`,
//! so no register is sacrificed) and afterwards stores everything into VPROBE_OUT.
//! `vprobe_fake` is an assembly fake that stores the complete register file it is entered with
//! (plus rsp, the return address and the stack arguments) into VPROBE_SEEN, then loads
//! rax:rdx / xmm0:xmm1 from VPROBE_RET and returns. All records are statics addressed
//! rip-relatively, so neither side needs a scratch register. Single-threaded use only.
#![allow(dead_code)]
use std::arch::global_asm;

#[repr(C)]
#[derive(Clone, Copy, Debug, PartialEq)]
pub struct Regs {
    pub rdi: u64,        // 0
    pub rsi: u64,        // 8
    pub rdx: u64,        // 16
    pub rcx: u64,        // 24
    pub r8: u64,         // 32
    pub r9: u64,         // 40
    pub rbx: u64,        // 48
    pub rbp: u64,        // 56
    pub r12: u64,        // 64
    pub r13: u64,        // 72
    pub r14: u64,        // 80
    pub r15: u64,        // 88
    pub rax: u64,        // 96
    pub rdx2: u64,       // 104 (rdx as a return register / at fake entry unused)
    pub rsp: u64,        // 112
    pub retaddr: u64,    // 120
    pub xmm: [[u64; 2]; 8], // 128..256
    pub stack: [u64; 4], // 256..288
    pub rflags: u64,     // 288
    pub r10: u64,        // 296
    pub r11: u64,        // 304
    pub canary_a: u64,   // 312
    pub canary_b: u64,   // 320
    pub pad: u64,        // 328
    pub ymm_hi: [[u64; 2]; 8], // 336..464 (bits 128..255 of ymm0-7; used only when the CPU has AVX)
}
pub const REGS_SIZE: usize = 464;

impl Regs {
    pub const fn zero() -> Regs {
        Regs { rdi: 0, rsi: 0, rdx: 0, rcx: 0, r8: 0, r9: 0, rbx: 0, rbp: 0, r12: 0, r13: 0, r14: 0, r15: 0, rax: 0, rdx2: 0, rsp: 0, retaddr: 0, xmm: [[0; 2]; 8], stack: [0; 4], rflags: 0, r10: 0, r11: 0, canary_a: 0, canary_b: 0, pad: 0, ymm_hi: [[0; 2]; 8] }
    }
}

extern "C" {
    pub static mut VPROBE_IN: Regs;
    pub static mut VPROBE_OUT: Regs;
    pub static mut VPROBE_SEEN: Regs;
    pub static mut VPROBE_RET: Regs;
    pub static mut VPROBE_TARGET: u64;
    pub static mut VPROBE_SAVED_RSP: u64;
    pub static mut VPROBE_FAKE_ENTRIES: u64;
    pub static mut VPROBE_AVX: u64;
    pub fn vprobe_call();
    pub fn vprobe_fake();
    pub fn vprobe_after_call();
}

global_asm!(
    r#"
    .bss
    .balign 16
    .global VPROBE_IN
VPROBE_IN: .skip 464
    .global VPROBE_OUT
VPROBE_OUT: .skip 464
    .global VPROBE_SEEN
VPROBE_SEEN: .skip 464
    .global VPROBE_RET
VPROBE_RET: .skip 464
    .global VPROBE_TARGET
VPROBE_TARGET: .skip 8
    .global VPROBE_SAVED_RSP
VPROBE_SAVED_RSP: .skip 8
    .global VPROBE_FAKE_ENTRIES
VPROBE_FAKE_ENTRIES: .skip 8
    .global VPROBE_AVX
VPROBE_AVX: .skip 8

    .text
    .global vprobe_call
    .type vprobe_call,@function
vprobe_call:
    push rbx
    push rbp
    push r12
    push r13
    push r14
    push r15
    sub rsp, 8
    mov qword ptr [rip + VPROBE_SAVED_RSP], rsp
    // canaries and outgoing stack arguments (6 words keep the 16-byte alignment)
    mov rax, qword ptr [rip + VPROBE_IN + 312]
    push rax
    mov rax, qword ptr [rip + VPROBE_IN + 320]
    push rax
    mov rax, qword ptr [rip + VPROBE_IN + 280]
    push rax
    mov rax, qword ptr [rip + VPROBE_IN + 272]
    push rax
    mov rax, qword ptr [rip + VPROBE_IN + 264]
    push rax
    mov rax, qword ptr [rip + VPROBE_IN + 256]
    push rax
    movdqu xmm0, xmmword ptr [rip + VPROBE_IN + 128]
    movdqu xmm1, xmmword ptr [rip + VPROBE_IN + 144]
    movdqu xmm2, xmmword ptr [rip + VPROBE_IN + 160]
    movdqu xmm3, xmmword ptr [rip + VPROBE_IN + 176]
    movdqu xmm4, xmmword ptr [rip + VPROBE_IN + 192]
    movdqu xmm5, xmmword ptr [rip + VPROBE_IN + 208]
    movdqu xmm6, xmmword ptr [rip + VPROBE_IN + 224]
    movdqu xmm7, xmmword ptr [rip + VPROBE_IN + 240]
    cmp qword ptr [rip + VPROBE_AVX], 0
    je 2f
    vinsertf128 ymm0, ymm0, xmmword ptr [rip + VPROBE_IN + 336], 1
    vinsertf128 ymm1, ymm1, xmmword ptr [rip + VPROBE_IN + 352], 1
    vinsertf128 ymm2, ymm2, xmmword ptr [rip + VPROBE_IN + 368], 1
    vinsertf128 ymm3, ymm3, xmmword ptr [rip + VPROBE_IN + 384], 1
    vinsertf128 ymm4, ymm4, xmmword ptr [rip + VPROBE_IN + 400], 1
    vinsertf128 ymm5, ymm5, xmmword ptr [rip + VPROBE_IN + 416], 1
    vinsertf128 ymm6, ymm6, xmmword ptr [rip + VPROBE_IN + 432], 1
    vinsertf128 ymm7, ymm7, xmmword ptr [rip + VPROBE_IN + 448], 1
2:
    mov rdi, qword ptr [rip + VPROBE_IN + 0]
    mov rsi, qword ptr [rip + VPROBE_IN + 8]
    mov rdx, qword ptr [rip + VPROBE_IN + 16]
    mov rcx, qword ptr [rip + VPROBE_IN + 24]
    mov r8,  qword ptr [rip + VPROBE_IN + 32]
    mov r9,  qword ptr [rip + VPROBE_IN + 40]
    mov rbx, qword ptr [rip + VPROBE_IN + 48]
    mov rbp, qword ptr [rip + VPROBE_IN + 56]
    mov r12, qword ptr [rip + VPROBE_IN + 64]
    mov r13, qword ptr [rip + VPROBE_IN + 72]
    mov r14, qword ptr [rip + VPROBE_IN + 80]
    mov r15, qword ptr [rip + VPROBE_IN + 88]
    mov r10, qword ptr [rip + VPROBE_IN + 296]
    mov r11, qword ptr [rip + VPROBE_IN + 304]
    mov rax, qword ptr [rip + VPROBE_IN + 96]
    cld
    call qword ptr [rip + VPROBE_TARGET]
    .global vprobe_after_call
vprobe_after_call:
    mov qword ptr [rip + VPROBE_OUT + 96], rax
    mov qword ptr [rip + VPROBE_OUT + 104], rdx
    mov qword ptr [rip + VPROBE_OUT + 112], rsp
    movdqu xmmword ptr [rip + VPROBE_OUT + 128], xmm0
    movdqu xmmword ptr [rip + VPROBE_OUT + 144], xmm1
    cmp qword ptr [rip + VPROBE_AVX], 0
    je 3f
    vextractf128 xmmword ptr [rip + VPROBE_OUT + 336], ymm0, 1
    vextractf128 xmmword ptr [rip + VPROBE_OUT + 352], ymm1, 1
    vzeroupper
3:
    mov qword ptr [rip + VPROBE_OUT + 48], rbx
    mov qword ptr [rip + VPROBE_OUT + 56], rbp
    mov qword ptr [rip + VPROBE_OUT + 64], r12
    mov qword ptr [rip + VPROBE_OUT + 72], r13
    mov qword ptr [rip + VPROBE_OUT + 80], r14
    mov qword ptr [rip + VPROBE_OUT + 88], r15
    mov qword ptr [rip + VPROBE_OUT + 0], rdi
    mov qword ptr [rip + VPROBE_OUT + 8], rsi
    // back to our own frame whatever happened to rsp
    mov rsp, qword ptr [rip + VPROBE_SAVED_RSP]
    mov rax, qword ptr [rsp - 8]
    mov qword ptr [rip + VPROBE_OUT + 312], rax
    mov rax, qword ptr [rsp - 16]
    mov qword ptr [rip + VPROBE_OUT + 320], rax
    mov rax, qword ptr [rsp - 24]
    mov qword ptr [rip + VPROBE_OUT + 280], rax
    mov rax, qword ptr [rsp - 32]
    mov qword ptr [rip + VPROBE_OUT + 272], rax
    mov rax, qword ptr [rsp - 40]
    mov qword ptr [rip + VPROBE_OUT + 264], rax
    mov rax, qword ptr [rsp - 48]
    mov qword ptr [rip + VPROBE_OUT + 256], rax
    pushfq
    pop rax
    mov qword ptr [rip + VPROBE_OUT + 288], rax
    cld
    add rsp, 8
    pop r15
    pop r14
    pop r13
    pop r12
    pop rbp
    pop rbx
    ret
    .size vprobe_call, .-vprobe_call

    .global vprobe_fake
    .type vprobe_fake,@function
vprobe_fake:
    mov qword ptr [rip + VPROBE_SEEN + 0], rdi
    mov qword ptr [rip + VPROBE_SEEN + 8], rsi
    mov qword ptr [rip + VPROBE_SEEN + 16], rdx
    mov qword ptr [rip + VPROBE_SEEN + 24], rcx
    mov qword ptr [rip + VPROBE_SEEN + 32], r8
    mov qword ptr [rip + VPROBE_SEEN + 40], r9
    mov qword ptr [rip + VPROBE_SEEN + 48], rbx
    mov qword ptr [rip + VPROBE_SEEN + 56], rbp
    mov qword ptr [rip + VPROBE_SEEN + 64], r12
    mov qword ptr [rip + VPROBE_SEEN + 72], r13
    mov qword ptr [rip + VPROBE_SEEN + 80], r14
    mov qword ptr [rip + VPROBE_SEEN + 88], r15
    mov qword ptr [rip + VPROBE_SEEN + 96], rax
    mov qword ptr [rip + VPROBE_SEEN + 112], rsp
    mov qword ptr [rip + VPROBE_SEEN + 296], r10
    mov qword ptr [rip + VPROBE_SEEN + 304], r11
    pushfq
    pop rax
    mov qword ptr [rip + VPROBE_SEEN + 288], rax
    cmp qword ptr [rip + VPROBE_AVX], 0
    je 4f
    vextractf128 xmmword ptr [rip + VPROBE_SEEN + 336], ymm0, 1
    vextractf128 xmmword ptr [rip + VPROBE_SEEN + 352], ymm1, 1
    vextractf128 xmmword ptr [rip + VPROBE_SEEN + 368], ymm2, 1
    vextractf128 xmmword ptr [rip + VPROBE_SEEN + 384], ymm3, 1
    vextractf128 xmmword ptr [rip + VPROBE_SEEN + 400], ymm4, 1
    vextractf128 xmmword ptr [rip + VPROBE_SEEN + 416], ymm5, 1
    vextractf128 xmmword ptr [rip + VPROBE_SEEN + 432], ymm6, 1
    vextractf128 xmmword ptr [rip + VPROBE_SEEN + 448], ymm7, 1
4:
    movdqu xmmword ptr [rip + VPROBE_SEEN + 128], xmm0
    movdqu xmmword ptr [rip + VPROBE_SEEN + 144], xmm1
    movdqu xmmword ptr [rip + VPROBE_SEEN + 160], xmm2
    movdqu xmmword ptr [rip + VPROBE_SEEN + 176], xmm3
    movdqu xmmword ptr [rip + VPROBE_SEEN + 192], xmm4
    movdqu xmmword ptr [rip + VPROBE_SEEN + 208], xmm5
    movdqu xmmword ptr [rip + VPROBE_SEEN + 224], xmm6
    movdqu xmmword ptr [rip + VPROBE_SEEN + 240], xmm7
    mov rax, qword ptr [rsp]
    mov qword ptr [rip + VPROBE_SEEN + 120], rax
    mov rax, qword ptr [rsp + 8]
    mov qword ptr [rip + VPROBE_SEEN + 256], rax
    mov rax, qword ptr [rsp + 16]
    mov qword ptr [rip + VPROBE_SEEN + 264], rax
    mov rax, qword ptr [rsp + 24]
    mov qword ptr [rip + VPROBE_SEEN + 272], rax
    mov rax, qword ptr [rsp + 32]
    mov qword ptr [rip + VPROBE_SEEN + 280], rax
    mov rax, qword ptr [rsp + 40]
    mov qword ptr [rip + VPROBE_SEEN + 320], rax
    mov rax, qword ptr [rsp + 48]
    mov qword ptr [rip + VPROBE_SEEN + 312], rax
    lock inc qword ptr [rip + VPROBE_FAKE_ENTRIES]
    movdqu xmm0, xmmword ptr [rip + VPROBE_RET + 128]
    movdqu xmm1, xmmword ptr [rip + VPROBE_RET + 144]
    cmp qword ptr [rip + VPROBE_AVX], 0
    je 5f
    vinsertf128 ymm0, ymm0, xmmword ptr [rip + VPROBE_RET + 336], 1
    vinsertf128 ymm1, ymm1, xmmword ptr [rip + VPROBE_RET + 352], 1
5:
    mov rdx, qword ptr [rip + VPROBE_RET + 104]
    mov rax, qword ptr [rip + VPROBE_RET + 96]
    ret
    .size vprobe_fake, .-vprobe_fake
    "#
);

/// Fill a record with seeded random values.
pub fn random_regs(rng: &mut crate::rng::Rng) -> Regs {
    let mut r = Regs::zero();
    let mut g = || match rng.below(8) {
        0 => 0,
        1 => u64::MAX,
        2 => rng.next() & 0xff,
        3 => 0x8000_0000_0000_0000,
        _ => rng.next(),
    };
    r.rdi = g();
    r.rsi = g();
    r.rdx = g();
    r.rcx = g();
    r.r8 = g();
    r.r9 = g();
    r.rbx = g();
    r.rbp = g();
    r.r12 = g();
    r.r13 = g();
    r.r14 = g();
    r.r15 = g();
    r.rax = g();
    r.rdx2 = g();
    r.r10 = g();
    r.r11 = g();
    for i in 0..8 {
        r.xmm[i] = [g(), g()];
    }
    for i in 0..8 {
        r.ymm_hi[i] = [g() | 1, g()];
    }
    for i in 0..4 {
        r.stack[i] = g();
    }
    r.canary_a = g() | 1;
    r.canary_b = g() | 2;
    r
}

/// Run one probed call of `target`. Returns (what the caller saw after return, what the assembly fake
/// saw on entry, number of times the fake was entered during this call).
pub unsafe fn probed_call(target: usize, input: &Regs, ret: &Regs) -> (Regs, Regs, u64) {
    std::ptr::write_volatile(std::ptr::addr_of_mut!(VPROBE_IN), *input);
    std::ptr::write_volatile(std::ptr::addr_of_mut!(VPROBE_RET), *ret);
    std::ptr::write_volatile(std::ptr::addr_of_mut!(VPROBE_OUT), Regs::zero());
    std::ptr::write_volatile(std::ptr::addr_of_mut!(VPROBE_SEEN), Regs::zero());
    std::ptr::write_volatile(std::ptr::addr_of_mut!(VPROBE_TARGET), target as u64);
    std::ptr::write_volatile(std::ptr::addr_of_mut!(VPROBE_AVX), has_avx() as u64);
    let e0 = std::ptr::read_volatile(std::ptr::addr_of!(VPROBE_FAKE_ENTRIES));
    vprobe_call();
    let e1 = std::ptr::read_volatile(std::ptr::addr_of!(VPROBE_FAKE_ENTRIES));
    let out = std::ptr::read_volatile(std::ptr::addr_of!(VPROBE_OUT));
    let seen = std::ptr::read_volatile(std::ptr::addr_of!(VPROBE_SEEN));
    (out, seen, e1 - e0)
}
pub unsafe fn saved_rsp() -> u64 {
    std::ptr::read_volatile(std::ptr::addr_of!(VPROBE_SAVED_RSP))
}

/// 256-bit vector arguments (ymm0-7) and returns (ymm0:ymm1) are probed only where the CPU has AVX
pub fn has_avx() -> bool {
    std::is_x86_feature_detected!("avx")
}
