//! M3 — synthetic code arenas and the address-space shaper. All mappings here go through raw
//! system calls so that the M1 event log only ever contains the library's (and std's) calls.
#![allow(dead_code)]
use crate::interpose::{sys_mmap, sys_mprotect, sys_munmap};

pub const PAGE: usize = 4096;
pub const RX: i32 = libc::PROT_READ | libc::PROT_EXEC;
pub const RWX: i32 = libc::PROT_READ | libc::PROT_WRITE | libc::PROT_EXEC;
pub const RW: i32 = libc::PROT_READ | libc::PROT_WRITE;
pub const MAP_FIXED_NOREPLACE: i32 = 0x100000;

pub struct Arena {
    pub base: usize,
    pub len: usize,
}

impl Arena {
    /// Map `len` bytes exactly at `addr` (page aligned) or fail without disturbing anything.
    pub fn map_at(addr: usize, len: usize, prot: i32) -> Option<Arena> {
        assert!(addr % PAGE == 0 && len % PAGE == 0 && len > 0);
        let r = unsafe {
            sys_mmap(
                addr,
                len,
                prot,
                libc::MAP_PRIVATE | libc::MAP_ANONYMOUS | MAP_FIXED_NOREPLACE,
                -1,
                0,
            )
        };
        if r == -1 {
            return None;
        }
        if r as usize != addr {
            // kernel without MAP_FIXED_NOREPLACE semantics gave us something else
            unsafe {
                sys_munmap(r as usize, len);
            }
            return None;
        }
        Some(Arena { base: addr, len })
    }
    /// Map anywhere (kernel's choice).
    pub fn map_any(len: usize, prot: i32) -> Option<Arena> {
        let r = unsafe { sys_mmap(0, len, prot, libc::MAP_PRIVATE | libc::MAP_ANONYMOUS, -1, 0) };
        if r == -1 {
            return None;
        }
        Some(Arena { base: r as usize, len })
    }
    pub fn end(&self) -> usize {
        self.base + self.len
    }
    pub fn contains(&self, a: usize) -> bool {
        a >= self.base && a < self.end()
    }
    /// set protection of the pages covering [addr, addr+len)
    pub fn protect(&self, addr: usize, len: usize, prot: i32) {
        let lo = addr & !(PAGE - 1);
        let hi = (addr + len + PAGE - 1) & !(PAGE - 1);
        let r = unsafe { sys_mprotect(lo, hi - lo, prot) };
        assert!(r == 0, "harness mprotect failed");
    }
    pub fn protect_all(&self, prot: i32) {
        self.protect(self.base, self.len, prot);
    }
    /// write bytes (the arena must currently be writable)
    pub fn write(&self, addr: usize, bytes: &[u8]) {
        assert!(addr >= self.base && addr + bytes.len() <= self.end());
        unsafe {
            std::ptr::copy_nonoverlapping(bytes.as_ptr(), addr as *mut u8, bytes.len());
        }
    }
    pub fn fill(&self, b: u8) {
        unsafe {
            std::ptr::write_bytes(self.base as *mut u8, b, self.len);
        }
    }
}
impl Drop for Arena {
    fn drop(&mut self) {
        unsafe {
            sys_munmap(self.base, self.len);
        }
    }
}

/// `mov eax, imm32; ret` followed by `pad` filler bytes up to `slot` bytes in total.
pub fn code_ret_const(id: u32, slot: usize, filler: u8) -> Vec<u8> {
    let mut v = vec![0xB8];
    v.extend_from_slice(&id.to_le_bytes());
    v.push(0xC3);
    while v.len() < slot {
        v.push(filler);
    }
    v
}

/// Rust ABI on purpose: a fake reached through the target may panic and unwind through the caller
pub type Fn0 = unsafe fn() -> i32;
pub unsafe fn call0(addr: usize) -> i32 {
    let f: Fn0 = std::mem::transmute(addr);
    f()
}
pub type FnB = unsafe extern "C" fn() -> bool;

/// lowest address this kernel lets an unprivileged process map (probed)
pub fn lowest_mappable() -> usize {
    let mut a = PAGE;
    while a <= 0x100000 {
        if let Some(_ar) = Arena::map_at(a, PAGE, RW) {
            return a;
        }
        a += PAGE;
    }
    0x100000
}

/// The shaper: reserve (PROT_NONE, MAP_NORESERVE) every free byte of [lo, hi) except `holes`.
pub struct Reservation {
    pub ranges: Vec<(usize, usize)>,
    pub failed: usize,
}
impl Reservation {
    pub fn reserve(lo: usize, hi: usize, holes: &[(usize, usize)]) -> Reservation {
        let lo = lo & !(PAGE - 1);
        let hi = (hi + PAGE - 1) & !(PAGE - 1);
        let mut ranges = Vec::new();
        let mut failed = 0;
        for (gs, ge) in crate::maps::gaps(lo, hi) {
            // cut the holes out of this gap
            let mut pieces = vec![(gs, ge)];
            for &(hs, he) in holes {
                let mut next = Vec::new();
                for (s, e) in pieces {
                    if he <= s || hs >= e {
                        next.push((s, e));
                    } else {
                        if hs > s {
                            next.push((s, hs));
                        }
                        if he < e {
                            next.push((he, e));
                        }
                    }
                }
                pieces = next;
            }
            for (s, e) in pieces {
                if e <= s {
                    continue;
                }
                let r = unsafe {
                    sys_mmap(
                        s,
                        e - s,
                        libc::PROT_NONE,
                        libc::MAP_PRIVATE | libc::MAP_ANONYMOUS | libc::MAP_NORESERVE | MAP_FIXED_NOREPLACE,
                        -1,
                        0,
                    )
                };
                if r == -1 || r as usize != s {
                    if r != -1 {
                        unsafe {
                            sys_munmap(r as usize, e - s);
                        }
                    }
                    // fall back to page-by-page for this piece (part of it may be unmappable, e.g.
                    // below mmap_min_addr)
                    let mut p = s;
                    let mut run: Option<(usize, usize)> = None;
                    while p < e {
                        let r = unsafe {
                            sys_mmap(
                                p,
                                PAGE,
                                libc::PROT_NONE,
                                libc::MAP_PRIVATE | libc::MAP_ANONYMOUS | libc::MAP_NORESERVE | MAP_FIXED_NOREPLACE,
                                -1,
                                0,
                            )
                        };
                        if r != -1 && r as usize == p {
                            run = match run {
                                Some((a, b)) if b == p => Some((a, p + PAGE)),
                                Some(x) => {
                                    ranges.push(x);
                                    Some((p, p + PAGE))
                                }
                                None => Some((p, p + PAGE)),
                            };
                        } else {
                            if r != -1 {
                                unsafe {
                                    sys_munmap(r as usize, PAGE);
                                }
                            }
                            failed += 1;
                        }
                        p += PAGE;
                    }
                    if let Some(x) = run {
                        ranges.push(x);
                    }
                } else {
                    ranges.push((s, e));
                }
            }
        }
        Reservation { ranges, failed }
    }
    pub fn bytes(&self) -> usize {
        self.ranges.iter().map(|(a, b)| b - a).sum()
    }
}
impl Drop for Reservation {
    fn drop(&mut self) {
        for &(s, e) in &self.ranges {
            unsafe {
                sys_munmap(s, e - s);
            }
        }
    }
}
