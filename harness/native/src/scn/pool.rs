//! The pool of patchable targets and the install kinds used by the history workloads
//! (C02, C03, C05, C12, C17): synthetic arena functions at 16-byte pitch, ordinary Rust functions,
//! generic instantiations, a method, three libc functions and async functions.
#![allow(dead_code)]
use super::util::*;
use crate::arena::*;
use crate::rng::Rng;
use injectorpp::interface::injector::*;
use std::future::Future;
use std::pin::Pin;
use std::sync::atomic::{AtomicI64, AtomicUsize, Ordering};
use std::task::{Context, Poll, RawWaker, RawWakerVTable, Waker};

#[derive(Clone, Copy, Debug, PartialEq, Eq, PartialOrd, Ord)]
pub enum Fam {
    I32,
    Bool,
    Gen8,
    Gen16,
    Gen32,
    Method,
    LibcInt,
    LibcLong,
    LibcStr,
    AsyncU32,
    AsyncStr,
}

#[derive(Clone, Copy, Debug, PartialEq, Eq, PartialOrd, Ord)]
pub enum Kind {
    Raw,
    Closure,
    FakeMacro,
    FakeTimes,
    Boolean,
    Async,
    Unchecked,
}
pub const KINDS: [Kind; 7] = [Kind::Raw, Kind::Closure, Kind::FakeMacro, Kind::FakeTimes, Kind::Boolean, Kind::Async, Kind::Unchecked];

pub struct Target {
    pub name: String,
    pub fam: Fam,
    pub addr: usize,
    pub orig: i64,
    pub synthetic: bool,
    pub call: Box<dyn Fn() -> i64 + Send + Sync>,
    pub mk: Box<dyn Fn() -> FuncPtr + Send + Sync>,
}

// ------------------------------------------------------------------ ordinary Rust targets
macro_rules! rust_i32 {
    ($($n:ident = $v:expr),*) => { $( #[inline(never)] pub fn $n() -> i32 { std::hint::black_box($v) } )* };
}
rust_i32!(r0 = 0x1100, r1 = 0x1101, r2 = 0x1102, r3 = 0x1103, r4 = 0x1104, r5 = 0x1105);
#[inline(never)]
pub fn rb0() -> bool {
    std::hint::black_box(false)
}
#[inline(never)]
pub fn rb1() -> bool {
    std::hint::black_box(true)
}
#[inline(never)]
pub fn gen<T: Into<u64>>(x: T) -> i32 {
    let v: u64 = x.into();
    std::hint::black_box((v as i32).wrapping_mul(3) + (std::mem::size_of::<T>() as i32) * 1000)
}
pub struct S {
    pub k: i32,
}
impl S {
    #[inline(never)]
    pub fn m(&self, a: i32) -> i32 {
        std::hint::black_box(self.k * 10 + a)
    }
}
pub static ASYNC_BODY_RUNS: AtomicUsize = AtomicUsize::new(0);
pub async fn a0(x: u32) -> u32 {
    ASYNC_BODY_RUNS.fetch_add(1, Ordering::SeqCst);
    x + 1
}
pub async fn a1(x: u32) -> u32 {
    ASYNC_BODY_RUNS.fetch_add(1, Ordering::SeqCst);
    x + 2
}
pub async fn a2(s: &str) -> String {
    ASYNC_BODY_RUNS.fetch_add(1, Ordering::SeqCst);
    format!("orig:{s}")
}

// ------------------------------------------------------------------ a minimal executor
fn noop_raw() -> RawWaker {
    fn clone(_: *const ()) -> RawWaker {
        noop_raw()
    }
    fn noop(_: *const ()) {}
    static VT: RawWakerVTable = RawWakerVTable::new(clone, noop, noop, noop);
    RawWaker::new(std::ptr::null(), &VT)
}
pub fn block_on<F: Future>(f: F) -> (F::Output, usize) {
    let waker = unsafe { Waker::from_raw(noop_raw()) };
    let mut cx = Context::from_waker(&waker);
    let mut f = std::pin::pin!(f);
    let mut polls = 0;
    loop {
        polls += 1;
        if let Poll::Ready(v) = f.as_mut().poll(&mut cx) {
            return (v, polls);
        }
        if polls > 1000 {
            panic!("USER: future never completed");
        }
    }
}
pub fn poll_addr<F: Future>(_f: &F) -> usize {
    let p: fn(Pin<&mut F>, &mut Context<'_>) -> Poll<F::Output> = <F as Future>::poll;
    p as usize
}
fn hash_str(s: &str) -> i64 {
    let mut h: i64 = 1469598103934665603u64 as i64;
    for b in s.bytes() {
        h = (h ^ b as i64).wrapping_mul(1099511628211);
    }
    h & 0x7fff_ffff
}

// ------------------------------------------------------------------ fakes
macro_rules! fake_i32 {
    ($($n:ident = $v:expr),*) => { $( #[inline(never)] pub fn $n() -> i32 { std::hint::black_box($v) } )* };
}
fake_i32!(fk0 = 0x7100, fk1 = 0x7101, fk2 = 0x7102, fk3 = 0x7103, fk4 = 0x7104, fk5 = 0x7105, fk6 = 0x7106, fk7 = 0x7107);
#[inline(never)]
fn fb_true() -> bool {
    std::hint::black_box(true)
}
#[inline(never)]
fn fb_false() -> bool {
    std::hint::black_box(false)
}
#[inline(never)]
fn fg8(_x: u8) -> i32 {
    std::hint::black_box(0x7208)
}
#[inline(never)]
fn fg8b(_x: u8) -> i32 {
    std::hint::black_box(0x7218)
}
#[inline(never)]
fn fg16(_x: u16) -> i32 {
    std::hint::black_box(0x7216)
}
#[inline(never)]
fn fg16b(_x: u16) -> i32 {
    std::hint::black_box(0x7226)
}
#[inline(never)]
fn fg32(_x: u32) -> i32 {
    std::hint::black_box(0x7232)
}
#[inline(never)]
fn fg32b(_x: u32) -> i32 {
    std::hint::black_box(0x7242)
}
#[inline(never)]
fn fm(_s: &S, _a: i32) -> i32 {
    std::hint::black_box(0x7300)
}
#[inline(never)]
fn fm2(_s: &S, _a: i32) -> i32 {
    std::hint::black_box(0x7301)
}
#[inline(never)]
unsafe extern "C" fn fc_int(_x: libc::c_int) -> libc::c_int {
    std::hint::black_box(0x7400)
}
#[inline(never)]
unsafe extern "C" fn fc_int2(_x: libc::c_int) -> libc::c_int {
    std::hint::black_box(0x7401)
}
#[inline(never)]
unsafe extern "C" fn fc_long(_x: libc::c_long) -> libc::c_long {
    std::hint::black_box(0x7500)
}
#[inline(never)]
unsafe extern "C" fn fc_long2(_x: libc::c_long) -> libc::c_long {
    std::hint::black_box(0x7501)
}
#[inline(never)]
unsafe extern "C" fn fc_str(_x: *const libc::c_char) -> libc::c_int {
    std::hint::black_box(0x7600)
}
#[inline(never)]
unsafe extern "C" fn fc_str2(_x: *const libc::c_char) -> libc::c_int {
    std::hint::black_box(0x7601)
}

/// run-time chosen budgets for the `times:` sites
pub static TIMES_N: [AtomicUsize; 4] = [const { AtomicUsize::new(0) }; 4];
pub static TIMES_M: AtomicUsize = AtomicUsize::new(0);
/// run-time chosen value for the `returns:` expression of the variable site
pub static RET_VAR: AtomicI64 = AtomicI64::new(0);

/// what an installation did: value the target must now produce, the kind label, and the counter
/// of a `times:` fake (so the history can make exactly / not exactly that many calls)
pub struct Installed {
    pub expect: i64,
    pub kind: Kind,
    pub times: Option<(usize, &'static AtomicUsize)>,
}

#[cfg(feature = "ccv")]
fn reset(v: &CallCountVerifier) -> Option<&'static AtomicUsize> {
    // the harness zeroes the counter itself so that the verdicts of C02/C05/C12/C17 do not depend on C07
    if let CallCountVerifier::WithCount { counter, .. } = v {
        counter.store(0, Ordering::SeqCst);
        Some(*counter)
    } else {
        None
    }
}
#[cfg(not(feature = "ccv"))]
fn reset(_v: &CallCountVerifier) -> Option<&'static AtomicUsize> {
    None
}
/// whether the call counter of a `times:` fake can be read (see Cargo.toml, feature `ccv`)
pub const HAVE_CCV: bool = cfg!(feature = "ccv");

/// kinds a family supports
pub fn kinds_of(f: Fam) -> &'static [Kind] {
    match f {
        Fam::I32 => &[Kind::Raw, Kind::Closure, Kind::FakeMacro, Kind::FakeTimes, Kind::Unchecked],
        Fam::Bool => &[Kind::Boolean, Kind::Raw, Kind::FakeMacro, Kind::Unchecked],
        Fam::Gen8 | Fam::Gen16 | Fam::Gen32 => &[Kind::Raw, Kind::Closure, Kind::Unchecked],
        Fam::Method => &[Kind::Raw, Kind::FakeMacro, Kind::FakeTimes, Kind::Closure],
        Fam::LibcInt | Fam::LibcLong | Fam::LibcStr => &[Kind::Raw, Kind::FakeMacro, Kind::Unchecked],
        Fam::AsyncU32 | Fam::AsyncStr => &[Kind::Async],
    }
}

/// Install a fake of `kind` on `t`. `variant` selects among the fakes of that kind; `budget` is
/// the call budget for FakeTimes.
pub fn install(inj: &mut InjectorPP, t: &Target, kind: Kind, variant: usize, budget: usize) -> Installed {
    let mut times = None;
    let expect: i64 = match (t.fam, kind) {
        (Fam::I32, Kind::Raw) => {
            let fs: [(fn() -> i32, i64); 8] = [(fk0, 0x7100), (fk1, 0x7101), (fk2, 0x7102), (fk3, 0x7103), (fk4, 0x7104), (fk5, 0x7105), (fk6, 0x7106), (fk7, 0x7107)];
            let (f, v) = fs[variant % 8];
            inj.when_called((t.mk)()).will_execute_raw(injectorpp::func!(f, fn() -> i32));
            v
        }
        (Fam::I32, Kind::Closure) => match variant % 3 {
            0 => {
                inj.when_called((t.mk)()).will_execute_raw(injectorpp::closure!(|| -> i32 { 0x7a00 }, fn() -> i32));
                0x7a00
            }
            1 => {
                inj.when_called((t.mk)()).will_execute_raw(injectorpp::closure!(|| -> i32 { 0x7a01 }, fn() -> i32));
                0x7a01
            }
            _ => {
                inj.when_called((t.mk)()).will_execute_raw(injectorpp::closure!(|| -> i32 { 0x7a02 }, fn() -> i32));
                0x7a02
            }
        },
        (Fam::I32, Kind::FakeMacro) => match variant % 3 {
            0 => {
                inj.when_called((t.mk)()).will_execute(injectorpp::fake!(func_type: fn() -> i32, returns: 0x7b00));
                0x7b00
            }
            1 => {
                inj.when_called((t.mk)()).will_execute(injectorpp::fake!(func_type: fn() -> i32, returns: 0x7b01));
                0x7b01
            }
            _ => {
                inj.when_called((t.mk)()).will_execute(injectorpp::fake!(func_type: fn() -> i32, when: true, assign: { let _x = 1; }, returns: 0x7b02));
                0x7b02
            }
        },
        (Fam::I32, Kind::FakeTimes) => {
            let site = variant % 4;
            TIMES_N[site].store(budget, Ordering::SeqCst);
            let (fp, ver, v) = match site {
                0 => {
                    let (a, b) = injectorpp::fake!(func_type: fn() -> i32, returns: 0x7c00, times: TIMES_N[0].load(Ordering::SeqCst));
                    (a, b, 0x7c00)
                }
                1 => {
                    let (a, b) = injectorpp::fake!(func_type: fn() -> i32, returns: 0x7c01, times: TIMES_N[1].load(Ordering::SeqCst));
                    (a, b, 0x7c01)
                }
                2 => {
                    let (a, b) = injectorpp::fake!(func_type: fn() -> i32, when: true, returns: 0x7c02, times: TIMES_N[2].load(Ordering::SeqCst));
                    (a, b, 0x7c02)
                }
                _ => {
                    let (a, b) = injectorpp::fake!(func_type: fn() -> i32, assign: { let _ = 1; }, returns: 0x7c03, times: TIMES_N[3].load(Ordering::SeqCst));
                    (a, b, 0x7c03)
                }
            };
            let c = reset(&ver);
            times = c.map(|c| (budget, c));
            inj.when_called((t.mk)()).will_execute((fp, ver));
            v
        }
        (Fam::I32, Kind::Unchecked) => {
            let fs: [(fn() -> i32, i64); 4] = [(fk4, 0x7104), (fk5, 0x7105), (fk6, 0x7106), (fk7, 0x7107)];
            let (f, v) = fs[variant % 4];
            unsafe {
                inj.when_called_unchecked(fp(t.addr, "")).will_execute_raw_unchecked(injectorpp::func_unchecked!(f));
            }
            v
        }
        (Fam::Bool, Kind::Boolean) => {
            let b = variant % 2 == 0;
            inj.when_called((t.mk)()).will_return_boolean(b);
            b as i64
        }
        (Fam::Bool, Kind::Raw) => {
            if variant % 2 == 0 {
                inj.when_called((t.mk)()).will_execute_raw(injectorpp::func!(fn (fb_true)() -> bool));
                1
            } else {
                inj.when_called((t.mk)()).will_execute_raw(injectorpp::func!(fn (fb_false)() -> bool));
                0
            }
        }
        (Fam::Bool, Kind::FakeMacro) => {
            if variant % 2 == 0 {
                inj.when_called((t.mk)()).will_execute(injectorpp::fake!(func_type: fn() -> bool, returns: true));
                1
            } else {
                inj.when_called((t.mk)()).will_execute(injectorpp::fake!(func_type: fn() -> bool, returns: false));
                0
            }
        }
        (Fam::Bool, Kind::Unchecked) => {
            unsafe {
                if variant % 2 == 0 {
                    inj.when_called_unchecked(fp(t.addr, "")).will_execute_raw_unchecked(injectorpp::func_unchecked!(fb_true));
                } else {
                    inj.when_called_unchecked(fp(t.addr, "")).will_execute_raw_unchecked(injectorpp::func_unchecked!(fb_false));
                }
            }
            (variant % 2 == 0) as i64
        }
        (Fam::Gen8, Kind::Raw) => {
            if variant % 2 == 0 {
                inj.when_called((t.mk)()).will_execute_raw(injectorpp::func!(fn (fg8)(u8) -> i32));
                0x7208
            } else {
                inj.when_called((t.mk)()).will_execute_raw(injectorpp::func!(fn (fg8b)(u8) -> i32));
                0x7218
            }
        }
        (Fam::Gen16, Kind::Raw) => {
            if variant % 2 == 0 {
                inj.when_called((t.mk)()).will_execute_raw(injectorpp::func!(fn (fg16)(u16) -> i32));
                0x7216
            } else {
                inj.when_called((t.mk)()).will_execute_raw(injectorpp::func!(fn (fg16b)(u16) -> i32));
                0x7226
            }
        }
        (Fam::Gen32, Kind::Raw) => {
            if variant % 2 == 0 {
                inj.when_called((t.mk)()).will_execute_raw(injectorpp::func!(fn (fg32)(u32) -> i32));
                0x7232
            } else {
                inj.when_called((t.mk)()).will_execute_raw(injectorpp::func!(fn (fg32b)(u32) -> i32));
                0x7242
            }
        }
        (Fam::Gen8, Kind::Closure) => {
            inj.when_called((t.mk)()).will_execute_raw(injectorpp::closure!(|_x: u8| -> i32 { 0x7d08 }, fn(u8) -> i32));
            0x7d08
        }
        (Fam::Gen16, Kind::Closure) => {
            inj.when_called((t.mk)()).will_execute_raw(injectorpp::closure!(|_x: u16| -> i32 { 0x7d16 }, fn(u16) -> i32));
            0x7d16
        }
        (Fam::Gen32, Kind::Closure) => {
            inj.when_called((t.mk)()).will_execute_raw(injectorpp::closure!(|_x: u32| -> i32 { 0x7d32 }, fn(u32) -> i32));
            0x7d32
        }
        (Fam::Gen8, Kind::Unchecked) => {
            unsafe {
                inj.when_called_unchecked(injectorpp::func_unchecked!(gen::<u8>)).will_execute_raw_unchecked(injectorpp::func_unchecked!(fg8));
            }
            0x7208
        }
        (Fam::Gen16, Kind::Unchecked) => {
            unsafe {
                inj.when_called_unchecked(injectorpp::func_unchecked!(gen::<u16>)).will_execute_raw_unchecked(injectorpp::func_unchecked!(fg16));
            }
            0x7216
        }
        (Fam::Gen32, Kind::Unchecked) => {
            unsafe {
                inj.when_called_unchecked(injectorpp::func_unchecked!(gen::<u32>)).will_execute_raw_unchecked(injectorpp::func_unchecked!(fg32));
            }
            0x7232
        }
        (Fam::Method, Kind::Raw) => {
            if variant % 2 == 0 {
                inj.when_called((t.mk)()).will_execute_raw(injectorpp::func!(fn (fm)(&S, i32) -> i32));
                0x7300
            } else {
                inj.when_called((t.mk)()).will_execute_raw(injectorpp::func!(fn (fm2)(&S, i32) -> i32));
                0x7301
            }
        }
        (Fam::Method, Kind::Closure) => {
            inj.when_called((t.mk)()).will_execute_raw(injectorpp::closure!(|_s: &S, _a: i32| -> i32 { 0x7302 }, fn(&S, i32) -> i32));
            0x7302
        }
        (Fam::Method, Kind::FakeMacro) => {
            inj.when_called((t.mk)()).will_execute(injectorpp::fake!(func_type: fn(_s: &S, a: i32) -> i32, when: a == 5, returns: 0x7310 + a));
            0x7315
        }
        (Fam::Method, Kind::FakeTimes) => {
            TIMES_M.store(budget, Ordering::SeqCst);
            let (fp, ver) = injectorpp::fake!(func_type: fn(_s: &S, a: i32) -> i32, when: a == 5, returns: 0x7320, times: TIMES_M.load(Ordering::SeqCst));
            let c = reset(&ver);
            times = c.map(|c| (budget, c));
            inj.when_called((t.mk)()).will_execute((fp, ver));
            0x7320
        }
        (Fam::LibcInt, Kind::Raw) => {
            if variant % 2 == 0 {
                inj.when_called((t.mk)()).will_execute_raw(injectorpp::func!(unsafe{} extern "C" fn (fc_int)(libc::c_int) -> libc::c_int));
                0x7400
            } else {
                inj.when_called((t.mk)()).will_execute_raw(injectorpp::func!(unsafe{} extern "C" fn (fc_int2)(libc::c_int) -> libc::c_int));
                0x7401
            }
        }
        (Fam::LibcInt, Kind::FakeMacro) => {
            inj.when_called((t.mk)()).will_execute(injectorpp::fake!(func_type: unsafe extern "C" fn(_x: libc::c_int) -> libc::c_int, returns: 0x7410));
            0x7410
        }
        (Fam::LibcInt, Kind::Unchecked) => {
            unsafe {
                inj.when_called_unchecked(injectorpp::func_unchecked!(libc::abs)).will_execute_raw_unchecked(injectorpp::func_unchecked!(fc_int));
            }
            0x7400
        }
        (Fam::LibcLong, Kind::Raw) => {
            if variant % 2 == 0 {
                inj.when_called((t.mk)()).will_execute_raw(injectorpp::func!(unsafe{} extern "C" fn (fc_long)(libc::c_long) -> libc::c_long));
                0x7500
            } else {
                inj.when_called((t.mk)()).will_execute_raw(injectorpp::func!(unsafe{} extern "C" fn (fc_long2)(libc::c_long) -> libc::c_long));
                0x7501
            }
        }
        (Fam::LibcLong, Kind::FakeMacro) => {
            inj.when_called((t.mk)()).will_execute(injectorpp::fake!(func_type: unsafe extern "C" fn(_x: libc::c_long) -> libc::c_long, returns: 0x7510));
            0x7510
        }
        (Fam::LibcLong, Kind::Unchecked) => {
            unsafe {
                inj.when_called_unchecked(injectorpp::func_unchecked!(libc::labs)).will_execute_raw_unchecked(injectorpp::func_unchecked!(fc_long));
            }
            0x7500
        }
        (Fam::LibcStr, Kind::Raw) => {
            if variant % 2 == 0 {
                inj.when_called((t.mk)()).will_execute_raw(injectorpp::func!(unsafe{} extern "C" fn (fc_str)(*const libc::c_char) -> libc::c_int));
                0x7600
            } else {
                inj.when_called((t.mk)()).will_execute_raw(injectorpp::func!(unsafe{} extern "C" fn (fc_str2)(*const libc::c_char) -> libc::c_int));
                0x7601
            }
        }
        (Fam::LibcStr, Kind::FakeMacro) => {
            inj.when_called((t.mk)()).will_execute(injectorpp::fake!(func_type: unsafe extern "C" fn(_x: *const libc::c_char) -> libc::c_int, returns: 0x7610));
            0x7610
        }
        (Fam::LibcStr, Kind::Unchecked) => {
            unsafe {
                inj.when_called_unchecked(injectorpp::func_unchecked!(libc::atoi)).will_execute_raw_unchecked(injectorpp::func_unchecked!(fc_str));
            }
            0x7600
        }
        (Fam::AsyncU32, Kind::Async) => {
            let which = t.name.ends_with("a0");
            let checked = variant % 3 != 2;
            let v: u32 = if variant % 2 == 0 { 0x7e00 } else { 0x7e01 };
            if which {
                if checked {
                    if variant % 2 == 0 {
                        inj.when_called_async(injectorpp::async_func!(a0(0), u32)).will_return_async(injectorpp::async_return!(0x7e00, u32));
                    } else {
                        inj.when_called_async(injectorpp::async_func!(a0(0), u32)).will_return_async(injectorpp::async_return!(0x7e01, u32));
                    }
                } else {
                    unsafe {
                        if variant % 2 == 0 {
                            inj.when_called_async_unchecked(injectorpp::async_func_unchecked!(a0(0))).will_return_async_unchecked(injectorpp::async_return_unchecked!(0x7e00, u32));
                        } else {
                            inj.when_called_async_unchecked(injectorpp::async_func_unchecked!(a0(0))).will_return_async_unchecked(injectorpp::async_return_unchecked!(0x7e01, u32));
                        }
                    }
                }
            } else if variant % 2 == 0 {
                inj.when_called_async(injectorpp::async_func!(a1(0), u32)).will_return_async(injectorpp::async_return!(0x7e00, u32));
            } else {
                inj.when_called_async(injectorpp::async_func!(a1(0), u32)).will_return_async(injectorpp::async_return!(0x7e01, u32));
            }
            v as i64
        }
        (Fam::AsyncStr, Kind::Async) => {
            inj.when_called_async(injectorpp::async_func!(a2(""), String)).will_return_async(injectorpp::async_return!("faked".to_string(), String));
            hash_str("faked")
        }
        (f, k) => panic!("USER: harness asked for unsupported ({:?},{:?})", f, k),
    };
    Installed { expect, kind, times }
}

/// The synthetic arena: 2 pages, int3-filled, 64 functions at 16-byte pitch in the first page's
/// upper half, one function straddling the page boundary, one in the last 16 bytes of the mapping
/// (the next page is unmapped, so an over-long write faults).
pub struct SynthArena {
    pub arena: Arena,
    pub slots: Vec<(usize, u32, bool)>, // (addr, id, is_bool)
}

pub fn build_synth(seed: u64) -> Option<SynthArena> {
    let mut rng = Rng::new(seed ^ 0x5157);
    let mut base = 0x6000_0000_0000usize + (rng.below(1024) as usize) * 0x10_0000;
    let mut arena = None;
    for _ in 0..16 {
        if crate::maps::is_free(base - PAGE, 4 * PAGE) {
            arena = Arena::map_at(base, 2 * PAGE, RWX);
            if arena.is_some() {
                break;
            }
        }
        base += 0x100_0000;
    }
    let arena = arena?;
    arena.fill(0xCC);
    let mut slots = Vec::new();
    fn put_fn(arena: &Arena, slots: &mut Vec<(usize, u32, bool)>, addr: usize, id: u32, is_bool: bool, slot: usize, rng: &mut Rng) {
        let mut code = code_ret_const(id, 6, 0);
        while code.len() < slot {
            code.push(rng.below(256) as u8);
        }
        arena.write(addr, &code);
        slots.push((addr, id, is_bool));
    }
    macro_rules! put {
        ($addr:expr, $id:expr, $b:expr, $slot:expr, $rng:expr) => {
            put_fn(&arena, &mut slots, $addr, $id, $b, $slot, $rng)
        };
    }
    // 64 packed functions
    for i in 0..64usize {
        let addr = base + 0x800 + 16 * i;
        let is_bool = i % 8 == 7;
        let id = if is_bool { (i as u32 / 8) % 2 } else { 0x2000 + i as u32 };
        put!(addr, id, is_bool, 16, &mut rng);
    }
    // one function whose 5 patch bytes straddle the page boundary (3 bytes before, 2 after), one that
    // ends exactly at the boundary, one that starts exactly at it
    put!(base + PAGE - 3, 0x2100, false, 8, &mut rng);
    put!(base + PAGE - 32, 0x2101, false, 8, &mut rng);
    put!(base + PAGE - 16 - 5, 0x2102, false, 5 + 1, &mut rng);
    put!(base + PAGE + 16, 0x2103, false, 16, &mut rng);
    // functions that START with a jump (forwarders / import stubs): faking them must patch THEM, not the
    // function behind the jump. Each forwards to an untouched neighbour of the packed block.
    let n1 = base + 0x800 + 16 * 3; // neighbour slot 3  (id 0x2003)
    let n2 = base + 0x800 + 16 * 11; // neighbour slot 11 (id 0x200b)
    let n3 = base + 0x800 + 16 * 19; // neighbour slot 19 (id 0x2013)
    {
        // jmp [rip+0] ; .quad n1      (the shape of a PLT / import stub)
        let a = base + PAGE + 0x100;
        let mut code = vec![0xFF, 0x25, 0, 0, 0, 0];
        code.extend_from_slice(&(n1 as u64).to_le_bytes());
        code.extend_from_slice(&[0xCC, 0xCC]);
        arena.write(a, &code);
        slots.push((a, 0x2003, false));
        // jmp rel32 n2
        let a = base + PAGE + 0x120;
        let rel = (n2 as i64 - (a as i64 + 5)) as i32;
        let mut code = vec![0xE9];
        code.extend_from_slice(&rel.to_le_bytes());
        code.extend_from_slice(&[0xCC; 11]);
        arena.write(a, &code);
        slots.push((a, 0x200b, false));
        // jmp rel8 to a jmp rel32 n3 placed 16 bytes further (two hops)
        let a = base + PAGE + 0x140;
        arena.write(a, &[0xEB, 14, 0xCC, 0xCC, 0xCC, 0xCC, 0xCC, 0xCC, 0xCC, 0xCC, 0xCC, 0xCC, 0xCC, 0xCC, 0xCC, 0xCC]);
        let b = a + 16;
        let rel = (n3 as i64 - (b as i64 + 5)) as i32;
        let mut code = vec![0xE9];
        code.extend_from_slice(&rel.to_le_bytes());
        arena.write(b, &code);
        slots.push((a, 0x2013, false));
    }
    // a function that starts with a CET landing pad: endbr64 ; mov eax, id ; ret
    {
        let a = base + PAGE + 0x180;
        let mut code = vec![0xF3, 0x0F, 0x1E, 0xFA, 0xB8];
        code.extend_from_slice(&0x2300u32.to_le_bytes());
        code.push(0xC3);
        while code.len() < 16 {
            code.push(rng.below(256) as u8);
        }
        arena.write(a, &code);
        slots.push((a, 0x2300, false));
        // and a very short one: xor eax,eax ; ret (3 bytes) followed by int3 up to the next slot
        let b = base + PAGE + 0x1a0;
        arena.write(b, &[0x31, 0xC0, 0xC3]);
        slots.push((b, 0, false));
    }
    // entries that are not even word aligned (hand-written assembly, -Os libraries): 1, 2, 3, 5, 6, 7 mod 8
    for (k, off) in [1usize, 2, 3, 5, 6, 7].iter().enumerate() {
        put!(base + PAGE + 0x200 + 0x20 * k + off, 0x2400 + k as u32, false, 12, &mut rng);
    }
    // last 16 bytes of the mapping (the properties grant the library the 16-byte entry slot, so every target has
    // 16 mapped bytes from its entry; a function closer to the end of its mapping, or neighbours packed tighter
    // than 16 bytes, would ask for more than they promise)
    put!(base + 2 * PAGE - 16, 0x2200, false, 16, &mut rng);
    // first bytes of the mapping
    put!(base, 0x2201, false, 16, &mut rng);
    arena.protect_all(RX);
    Some(SynthArena { arena, slots })
}

pub struct Pool {
    pub synth: SynthArena,
    /// a caller-owned read-write-execute page (a JIT buffer): functions that keep a counter in their own page
    pub jit: Option<Arena>,
    pub targets: Vec<Target>,
    /// synthetic functions that are never targets: (addr, id)
    pub neighbours: Vec<(usize, u32)>,
}

/// one generic set-up helper: ONE func! call site (short form) that names a different instantiation each time
fn gen_site<T: Into<u64> + 'static>() -> FuncPtr {
    injectorpp::func!(fn (gen::<T>)(T) -> i32)
}

/// one source line through which several functions are turned into FuncPtrs
fn via_one_site(f: fn() -> i32) -> FuncPtr {
    injectorpp::func!(f, fn() -> i32)
}

static THE_S: S = S { k: 4 };

pub fn build_pool(seed: u64) -> Pool {
    build_pool_ex(seed, false)
}

/// `nosynth`: leave the synthetic arena functions out (under valgrind the client address space is
/// managed by valgrind, which does not honour mmap hints next to arbitrary arenas)
pub fn build_pool_ex(seed: u64, nosynth: bool) -> Pool {
    build_pool_full(seed, nosynth, false)
}

/// `selfcount`: add functions living in a read-write-execute page of their own that increment a counter
/// stored in that page on every call (a JIT buffer whose code keeps data next to itself). "Behaves exactly
/// as before" includes that they can still do so once the injector is gone. Their calls change bytes of an
/// executable mapping, so the byte-diff monitor of C03 is not combined with them.
pub fn build_pool_full(seed: u64, nosynth: bool, selfcount: bool) -> Pool {
    let synth = build_synth(seed).expect("synthetic arena");
    let mut targets: Vec<Target> = Vec::new();
    let mut neighbours = Vec::new();
    let mut jit = None;
    if selfcount && !nosynth {
        let base = synth.arena.base + 0x40_0000;
        if crate::maps::is_free(base - PAGE, 3 * PAGE) {
            if let Some(ar) = Arena::map_at(base, PAGE, RWX) {
                ar.fill(0xCC);
                for k in 0..4usize {
                    let addr = base + 0x100 + 0x40 * k + [0usize, 3, 8, 13][k];
                    let id = 0x2500 + k as u32;
                    // lock inc dword ptr [rip + 0x29] ; mov eax, id ; ret ; ... ; counter at addr + 0x30
                    let mut code = vec![0xF0, 0xFF, 0x05, 0x29, 0, 0, 0, 0xB8];
                    code.extend_from_slice(&id.to_le_bytes());
                    code.push(0xC3);
                    ar.write(addr, &code);
                    ar.write(addr + 0x30, &[0, 0, 0, 0]);
                    targets.push(Target {
                        name: format!("selfcount@{:x}", addr),
                        fam: Fam::I32,
                        addr,
                        orig: id as i64,
                        synthetic: true,
                        call: Box::new(move || {
                            let c0 = unsafe { std::ptr::read_unaligned((addr + 0x30) as *const u32) };
                            let v = unsafe { call0(addr) } as i64;
                            let c1 = unsafe { std::ptr::read_unaligned((addr + 0x30) as *const u32) };
                            // the original counts its calls; anything returning the original's value without
                            // counting is not the original
                            if v == id as i64 && c1 != c0.wrapping_add(1) {
                                -0x2500
                            } else {
                                v
                            }
                        }),
                        mk: Box::new(move || fp(addr, SIG_I32)),
                    });
                }
                jit = Some(ar);
            }
        }
    }
    for (i, &(addr, id, is_bool)) in synth.slots.iter().enumerate() {
        if nosynth {
            break;
        }
        // in the packed block: slots 3 mod 4 stay untouched neighbours; everything else is a target
        if i < 64 && i % 4 == 3 && !is_bool {
            neighbours.push((addr, id));
            continue;
        }
        if is_bool {
            targets.push(Target {
                name: format!("synth_bool@{:x}", addr),
                fam: Fam::Bool,
                addr,
                orig: (id & 1) as i64,
                synthetic: true,
                call: Box::new(move || (unsafe { call0(addr) } & 0xff) as i64),
                mk: Box::new(move || fp(addr, SIG_BOOL)),
            });
        } else {
            targets.push(Target {
                name: format!("synth@{:x}", addr),
                fam: Fam::I32,
                addr,
                orig: id as i64,
                synthetic: true,
                call: Box::new(move || unsafe { call0(addr) } as i64),
                mk: Box::new(move || fp(addr, SIG_I32)),
            });
        }
    }
    macro_rules! rust_t {
        ($f:ident, $v:expr) => {
            targets.push(Target {
                name: stringify!($f).to_string(),
                fam: Fam::I32,
                addr: $f as usize,
                orig: $v,
                synthetic: false,
                call: Box::new(|| $f() as i64),
                mk: Box::new(|| injectorpp::func!(fn ($f)() -> i32)),
            });
        };
    }
    rust_t!(r0, 0x1100);
    rust_t!(r1, 0x1101);
    rust_t!(r2, 0x1102);
    // r3, r4, r5 are named through ONE func! call site (a set-up helper that takes the function as a parameter):
    // what the macro returns belongs to the function it is given each time, not to the source line
    for (name, f, v) in [("r3", r3 as fn() -> i32, 0x1103i64), ("r4", r4 as fn() -> i32, 0x1104), ("r5", r5 as fn() -> i32, 0x1105)] {
        targets.push(Target { name: format!("{} (via a shared func! site)", name), fam: Fam::I32, addr: f as usize, orig: v, synthetic: false, call: Box::new(move || f() as i64), mk: Box::new(move || via_one_site(f)) });
    }
    targets.push(Target { name: "rb0".into(), fam: Fam::Bool, addr: rb0 as usize, orig: 0, synthetic: false, call: Box::new(|| rb0() as i64), mk: Box::new(|| injectorpp::func!(fn (rb0)() -> bool)) });
    targets.push(Target { name: "rb1".into(), fam: Fam::Bool, addr: rb1 as usize, orig: 1, synthetic: false, call: Box::new(|| rb1() as i64), mk: Box::new(|| injectorpp::func!(fn (rb1)() -> bool)) });
    targets.push(Target { name: "gen<u8>".into(), fam: Fam::Gen8, addr: gen::<u8> as usize, orig: gen::<u8>(3) as i64, synthetic: false, call: Box::new(|| gen::<u8>(3) as i64), mk: Box::new(gen_site::<u8>) });
    targets.push(Target { name: "gen<u16>".into(), fam: Fam::Gen16, addr: gen::<u16> as usize, orig: gen::<u16>(3) as i64, synthetic: false, call: Box::new(|| gen::<u16>(3) as i64), mk: Box::new(gen_site::<u16>) });
    targets.push(Target { name: "gen<u32>".into(), fam: Fam::Gen32, addr: gen::<u32> as usize, orig: gen::<u32>(3) as i64, synthetic: false, call: Box::new(|| gen::<u32>(3) as i64), mk: Box::new(gen_site::<u32>) });
    targets.push(Target { name: "S::m".into(), fam: Fam::Method, addr: S::m as usize, orig: 45, synthetic: false, call: Box::new(|| THE_S.m(5) as i64), mk: Box::new(|| injectorpp::func!(fn (S::m)(&S, i32) -> i32)) });
    targets.push(Target {
        name: "libc::abs".into(),
        fam: Fam::LibcInt,
        addr: libc::abs as usize,
        orig: 7,
        synthetic: false,
        call: Box::new(|| unsafe { libc::abs(std::hint::black_box(-7)) } as i64),
        mk: Box::new(|| injectorpp::func!(unsafe{} extern "C" fn (libc::abs)(libc::c_int) -> libc::c_int)),
    });
    targets.push(Target {
        name: "libc::labs".into(),
        fam: Fam::LibcLong,
        addr: libc::labs as usize,
        orig: 9,
        synthetic: false,
        call: Box::new(|| unsafe { libc::labs(std::hint::black_box(-9)) } as i64),
        mk: Box::new(|| injectorpp::func!(unsafe{} extern "C" fn (libc::labs)(libc::c_long) -> libc::c_long)),
    });
    targets.push(Target {
        name: "libc::atoi".into(),
        fam: Fam::LibcStr,
        addr: libc::atoi as usize,
        orig: 321,
        synthetic: false,
        call: Box::new(|| unsafe { libc::atoi(std::hint::black_box(b"321\0".as_ptr() as *const libc::c_char)) } as i64),
        mk: Box::new(|| injectorpp::func!(unsafe{} extern "C" fn (libc::atoi)(*const libc::c_char) -> libc::c_int)),
    });
    targets.push(Target { name: "async a0".into(), fam: Fam::AsyncU32, addr: poll_addr(&a0(0)), orig: 6, synthetic: false, call: Box::new(|| block_on(a0(5)).0 as i64), mk: Box::new(|| fp(1, "")) });
    targets.push(Target { name: "async a1".into(), fam: Fam::AsyncU32, addr: poll_addr(&a1(0)), orig: 7, synthetic: false, call: Box::new(|| block_on(a1(5)).0 as i64), mk: Box::new(|| fp(1, "")) });
    targets.push(Target { name: "async a2".into(), fam: Fam::AsyncStr, addr: poll_addr(&a2("")), orig: hash_str("orig:x"), synthetic: false, call: Box::new(|| hash_str(&block_on(a2("x")).0)), mk: Box::new(|| fp(1, "")) });
    Pool { synth, jit, targets, neighbours }
}
