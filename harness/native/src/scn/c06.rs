//! C06 — `times: N` admits exactly N matching calls and is verified at scope exit (also under
//! concurrency); C07 — call counting starts from zero for every installation.
use crate::interpose as ip;
use crate::out::{self, Verdict, J};
use crate::panicobs;
use crate::rng::{hash64, Rng};
use crate::Ctx;
use injectorpp::interface::injector::*;
use std::sync::atomic::{AtomicBool, AtomicUsize, Ordering};
use std::sync::Arc;
use std::time::Instant;

static N_STATIC: AtomicUsize = AtomicUsize::new(0);

/// a `when` condition that takes a few hundred nanoseconds (conditions that inspect paths, strings or
/// buffers do): the time a call spends between being seen and being judged is then not negligible
#[inline(never)]
fn slow_is_seven(a: i32) -> bool {
    let mut h = a as u64;
    for _ in 0..60 {
        h = std::hint::black_box(crate::rng::hash64(h));
    }
    std::hint::black_box(h != 1) && a == 7
}

#[inline(never)]
pub fn tgt_a(a: i32) -> i32 {
    std::hint::black_box(a - 1000)
}
#[inline(never)]
pub fn tgt_b(a: i32) -> i32 {
    std::hint::black_box(a - 2000)
}
#[inline(never)]
pub fn tgt_c(a: i32, out: &mut i32) {
    *out = std::hint::black_box(a - 3000);
}
#[inline(never)]
pub unsafe fn tgt_d(a: i32) -> i32 {
    std::hint::black_box(a - 4000)
}
#[inline(never)]
pub fn tgt_e(a: i32) -> i32 {
    std::hint::black_box(a - 5000)
}
#[inline(never)]
pub fn tgt_f(a: i32, out: &mut i32) {
    *out = std::hint::black_box(a - 6000);
}

#[inline(never)]
pub extern "C" fn tgt_g(a: i32) -> i32 {
    std::hint::black_box(a - 7000)
}
#[inline(never)]
pub extern "C" fn tgt_h(a: i32) -> i32 {
    std::hint::black_box(a - 8000)
}
static PAIR_N: [AtomicUsize; 4] = [const { AtomicUsize::new(0) }; 4];

/// second functions of the same shapes: the fake built by one source line may be installed on a different
/// function in a later lifetime
#[inline(never)]
pub fn tgt_a2(a: i32) -> i32 {
    std::hint::black_box(a - 1500)
}
#[inline(never)]
pub fn tgt_b2(a: i32) -> i32 {
    std::hint::black_box(a - 2500)
}
thread_local! {
    static USE_ALT_TARGET: std::cell::Cell<bool> = const { std::cell::Cell::new(false) };
}
fn alt() -> bool {
    USE_ALT_TARGET.with(|c| c.get())
}

#[derive(Clone, Copy, Debug, PartialEq)]
pub enum Arm {
    /// fn, when + returns + times
    WhenRet,
    /// fn, returns + times (no when)
    Ret,
    /// fn unit, assign + times (no when)
    UnitAssign,
    /// unsafe fn, returns + times
    UnsafeRet,
    /// fn, when + assign + returns + times
    WhenAssignRet,
    /// fn unit, times only
    UnitTimes,
}
pub const ARMS: [Arm; 6] = [Arm::WhenRet, Arm::Ret, Arm::UnitAssign, Arm::UnsafeRet, Arm::WhenAssignRet, Arm::UnitTimes];

fn has_when(a: Arm) -> bool {
    matches!(a, Arm::WhenRet | Arm::WhenAssignRet)
}

/// Build the fake of one arm; the call site is the same source line every time (that is the point
/// of C07). Returns the tuple the library wants.
fn make(arm: Arm) -> (FuncPtr, CallCountVerifier) {
    match arm {
        Arm::WhenRet => injectorpp::fake!(func_type: fn(a: i32) -> i32, when: a == 7, returns: 100 + a, times: N_STATIC.load(Ordering::SeqCst)),
        Arm::Ret => injectorpp::fake!(func_type: fn(_a: i32) -> i32, returns: 55, times: N_STATIC.load(Ordering::SeqCst)),
        Arm::UnitAssign => injectorpp::fake!(func_type: fn(a: i32, out: &mut i32) -> (), assign: { *out = a + 1 }, times: N_STATIC.load(Ordering::SeqCst)),
        Arm::UnsafeRet => injectorpp::fake!(func_type: unsafe fn(_a: i32) -> i32, returns: 66, times: N_STATIC.load(Ordering::SeqCst)),
        Arm::WhenAssignRet => injectorpp::fake!(func_type: fn(a: i32) -> i32, when: slow_is_seven(a), assign: { let _ = a; }, returns: 200 + a, times: N_STATIC.load(Ordering::SeqCst)),
        Arm::UnitTimes => injectorpp::fake!(func_type: fn(_a: i32, _out: &mut i32) -> (), times: N_STATIC.load(Ordering::SeqCst)),
    }
}

fn install(inj: &mut InjectorPP, arm: Arm, pair: (FuncPtr, CallCountVerifier)) {
    match arm {
        Arm::WhenRet if alt() => inj.when_called(injectorpp::func!(fn (tgt_a2)(i32) -> i32)).will_execute(pair),
        Arm::Ret if alt() => inj.when_called(injectorpp::func!(fn (tgt_b2)(i32) -> i32)).will_execute(pair),
        Arm::WhenRet => inj.when_called(injectorpp::func!(fn (tgt_a)(i32) -> i32)).will_execute(pair),
        Arm::Ret => inj.when_called(injectorpp::func!(fn (tgt_b)(i32) -> i32)).will_execute(pair),
        Arm::UnitAssign => inj.when_called(injectorpp::func!(fn (tgt_c)(i32, &mut i32))).will_execute(pair),
        Arm::UnsafeRet => inj.when_called(injectorpp::func!(unsafe{} fn (tgt_d)(i32) -> i32)).will_execute(pair),
        Arm::WhenAssignRet => inj.when_called(injectorpp::func!(fn (tgt_e)(i32) -> i32)).will_execute(pair),
        Arm::UnitTimes => inj.when_called(injectorpp::func!(fn (tgt_f)(i32, &mut i32))).will_execute(pair),
    }
}

/// one call; returns Ok(value) / Err(panic class)
fn call(arm: Arm, matching: bool) -> Result<i64, String> {
    let a = if matching { 7 } else { 8 };
    if arm == Arm::UnitAssign {
        // the out-parameter lives outside the catch: a call that was rejected must not have assigned to it
        let mut o = -1;
        let r = std::panic::catch_unwind(std::panic::AssertUnwindSafe(|| tgt_c(a, &mut o)));
        return match r {
            Ok(()) => Ok(o as i64),
            Err(p) => Err(format!("{}{}", panicobs::classify(&panicobs::payload_msg(&p)), if o != -1 { "|assigned-although-rejected" } else { "" })),
        };
    }
    let use_alt = alt();
    let r = std::panic::catch_unwind(|| match arm {
        Arm::WhenRet if use_alt => tgt_a2(a) as i64,
        Arm::Ret if use_alt => tgt_b2(a) as i64,
        Arm::WhenRet => tgt_a(a) as i64,
        Arm::Ret => tgt_b(a) as i64,
        Arm::UnitAssign => {
            let mut o = -1;
            tgt_c(a, &mut o);
            o as i64
        }
        Arm::UnsafeRet => unsafe { tgt_d(a) as i64 },
        Arm::WhenAssignRet => tgt_e(a) as i64,
        Arm::UnitTimes => {
            let mut o = -1;
            tgt_f(a, &mut o);
            o as i64
        }
    });
    r.map_err(|p| panicobs::classify(&panicobs::payload_msg(&p)).to_string())
}
fn faked_value(arm: Arm) -> i64 {
    match arm {
        Arm::WhenRet => 107,
        Arm::Ret => 55,
        Arm::UnitAssign => 8,
        Arm::UnsafeRet => 66,
        Arm::WhenAssignRet => 207,
        Arm::UnitTimes => -1,
    }
}
fn orig_value(arm: Arm) -> i64 {
    match arm {
        Arm::WhenRet => 7 - 1000,
        Arm::Ret => 7 - 2000,
        Arm::UnitAssign => 7 - 3000,
        Arm::UnsafeRet => 7 - 4000,
        Arm::WhenAssignRet => 7 - 5000,
        Arm::UnitTimes => 7 - 6000,
    }
}

#[cfg(feature = "ccv")]
fn counter_of(v: &CallCountVerifier) -> Option<&'static AtomicUsize> {
    if let CallCountVerifier::WithCount { counter, .. } = v {
        Some(*counter)
    } else {
        None
    }
}
#[cfg(not(feature = "ccv"))]
fn counter_of(_v: &CallCountVerifier) -> Option<&'static AtomicUsize> {
    None
}
const HAVE_CCV: bool = cfg!(feature = "ccv");

/// Calls that race with the installation itself: a worker thread calls the target the moment it sees the fully
/// written entry patch; that call is absorbed by THIS installation (budget 1): it must be admitted and counted,
/// whatever earlier installations through the same call site absorbed. Returns the number of such calls seen.
fn race_trials(ctx: &Ctx, first_idx: u64) -> u64 {
    let race_rounds: u64 = if ctx.thorough { 40_000 } else { 3_000 };
    let mut race_hits = 0u64;
    for (ri, &arm) in [Arm::WhenRet, Arm::Ret].iter().enumerate() {
        let idx = first_idx + ri as u64;
        if !ctx.mine(idx) {
            continue;
        }
        let class = format!("{:?}/N=1/call-races-with-the-installation", arm);
        out::intent(idx, &class, &J::new().n("rounds", race_rounds).s("crash_sig", "install-race"));
        let taddr = match arm {
            Arm::WhenRet => tgt_a as usize,
            _ => tgt_b as usize,
        };
        // learn what the patched entry looks like (same trampoline page every time in practice)
        N_STATIC.store(0, Ordering::SeqCst);
        let snap: Vec<u8> = {
            let mut inj = ip::lib(InjectorPP::new);
            ip::lib(|| install(&mut inj, arm, make(arm)));
            let b = crate::maps::read_vec(taddr, 5).unwrap_or_default();
            let _ = std::panic::catch_unwind(std::panic::AssertUnwindSafe(|| ip::lib(|| drop(inj))));
            b
        };
        let snap = Arc::new(snap);
        let mut sig = String::new();
        let mut d = J::new();
        let mut rounds_done = 0u64;
        let mut early = 0u64;
        for _ in 0..race_rounds {
            N_STATIC.store(1, Ordering::SeqCst);
            let stop = Arc::new(AtomicBool::new(false));
            let (snap2, stop2) = (snap.clone(), stop.clone());
            let h = std::thread::spawn(move || {
                let mut buf = [0u8; 5];
                loop {
                    unsafe { std::ptr::copy_nonoverlapping(taddr as *const u8, buf.as_mut_ptr(), 5) };
                    if buf[..] == snap2[..] {
                        return Some(call(arm, true));
                    }
                    if stop2.load(Ordering::Relaxed) {
                        return None;
                    }
                    std::hint::spin_loop();
                }
            });
            let pair = make(arm);
            let counter = counter_of(&pair.1);
            let mut inj = ip::lib(InjectorPP::new);
            ip::lib(|| install(&mut inj, arm, pair));
            // the worker has seen (or will at once see) the patch: wait for its single call
            let t0 = Instant::now();
            while !h.is_finished() && t0.elapsed().as_millis() < 200 {
                std::hint::spin_loop();
            }
            stop.store(true, Ordering::SeqCst);
            let r = h.join().unwrap_or(None);
            let count = counter.map(|c| c.load(Ordering::SeqCst)).unwrap_or(1);
            let (dres, _) = panicobs::observe(|| ip::lib(|| drop(inj)));
            rounds_done += 1;
            match r {
                Some(Ok(v)) if v == faked_value(arm) => {
                    race_hits += 1;
                    if count != 1 || dres.is_err() {
                        sig = "call-absorbed-during-installation-was-not-counted".into();
                        d = J::new().n("counter", count).s("exit", &dres.err().unwrap_or_else(|| "no-panic".into())).n("round", rounds_done);
                        break;
                    }
                }
                Some(Ok(_)) => early += 1, // reached the original: not a call of this installation
                Some(Err(e)) => {
                    // the worker called through the patch it saw and was turned away although this installation
                    // has a budget of one and nobody else calls: calls of an earlier installation were held against it
                    race_hits += 1;
                    sig = "first-call-of-this-installation-rejected-on-account-of-earlier-ones".into();
                    d = J::new().s("call", &e).n("counter", count).s("exit", &dres.err().unwrap_or_else(|| "no-panic".into())).n("round", rounds_done);
                    break;
                }
                None => {}
            }
        }
        let d = d.n("rounds", rounds_done).n("calls_that_reached_the_fake", race_hits).n("calls_that_reached_the_original", early);
        if sig.is_empty() && race_hits == 0 {
            out::outcome(idx, &class, Verdict::Inconclusive, "the-worker-never-saw-the-patch", &d);
        } else {
            out::outcome(idx, &class, if sig.is_empty() { Verdict::Held } else { Verdict::Violated }, &sig, &d);
        }
    }
    race_hits
}

// ---------------------------------------------------------------------------------- C06
pub fn run_c06(ctx: &Ctx) {
    let ns: [usize; 8] = [0, 1, 2, 3, 5, 8, 16, 64];
    let ts: [usize; 5] = [1, 2, 4, 8, 16];
    let reps = if ctx.n > 0 { ctx.n } else if ctx.thorough { 60 } else { 4 };
    // enumerate (arm, N, k, t, rep)
    let mut trials = Vec::new();
    for rep in 0..reps {
        for &arm in &ARMS {
            for &n in &ns {
                for k in 0..=n + 2 {
                    // full k sweep for small N, the interesting values for large N
                    if n > 8 && !(k <= 1 || k + 3 >= n) {
                        continue;
                    }
                    for &t in &ts {
                        if t > 1 && k < 2 {
                            continue;
                        }
                        trials.push((arm, n, k, t, rep, usize::MAX));
                    }
                }
            }
        }
    }
    // budgets around the widths a narrower counter or a packed (count, budget) word would have: 8 and 16 bits
    for &arm in &ARMS {
        for &n in &[255usize, 256, 257, 65535, 65536, 65537] {
            for k in [0, 1, n - 1, n, n + 1, n + 2] {
                for &t in &[1usize, 4] {
                    if t > 1 && (n > 1000 && !ctx.thorough) {
                        continue;
                    }
                    trials.push((arm, n, k, t, 0, usize::MAX));
                }
            }
        }
    }
    // budgets at and beyond the 32-bit boundary (no such number of calls is made: k is 0 or 1)
    for &arm in &ARMS {
        for &n in &[(1usize << 31) - 1, 1usize << 31, 1usize << 32, (1usize << 32) + 1, usize::MAX] {
            for k in [0usize, 1] {
                trials.push((arm, n, k, 1, 0, usize::MAX));
            }
        }
    }
    // boundary trials: exactly N matching calls, each on its own thread, released together with several
    // NON-matching calls on other threads (a rejected call must never take a slot of the budget, not even
    // for a moment)
    let bmult = if ctx.thorough { 12 } else { 40 };
    for rep in 0..reps * bmult {
        for &arm in &[Arm::WhenRet, Arm::WhenAssignRet] {
            for &(n, t) in &[(1usize, 4usize), (1, 8), (2, 8), (3, 16)] {
                trials.push((arm, n, n, t, rep, t - n));
            }
        }
    }
    // admission races: more matching callers than budget, one call per thread, released together
    for rep in 0..reps * bmult {
        for &arm in &ARMS {
            for &(n, t) in &[(1usize, 2usize), (1, 4), (2, 4), (1, 8), (3, 8)] {
                trials.push((arm, n, t, t, rep, 0));
            }
        }
    }
    let mut overlap_trials = 0u64;
    let mut total_calls = 0u64;
    let mut by_outcome: std::collections::BTreeMap<String, u64> = std::collections::BTreeMap::new();
    for (idx, &(arm, n, k, t, rep, m_override)) in trials.iter().enumerate() {
        let idx = idx as u64;
        if !ctx.mine(idx) {
            continue;
        }
        let mut rng = Rng::new(ctx.seed ^ hash64(idx ^ 0xC06));
        let m = if m_override != usize::MAX { m_override } else if has_when(arm) { rng.below(4) as usize } else { 0 };
        let class = format!("{:?}/N={}/k={}/t={}{}{}", arm, n, k.min(n.saturating_add(2)), t, if m > 0 { "/with-nonmatching" } else { "" }, if m_override == usize::MAX { "" } else if m_override == 0 { "/admission-race" } else { "/boundary" });
        out::intent(idx, &class, &J::new().n("N", n).n("k", k).n("threads", t).n("nonmatching", m).n("rep", rep).s("crash_sig", &format!("{:?}", arm)));
        N_STATIC.store(n, Ordering::SeqCst);
        let pair = make(arm);
        let counter = counter_of(&pair.1);
        if counter.is_none() && HAVE_CCV {
            out::outcome(idx, &class, Verdict::Violated, "times-arm-produced-no-counting-verifier", &J::new());
            continue;
        }
        // Half of the trials zero the counter themselves (so that this verdict does not depend on C07);
        // the other half leave it to the library, as a user would: earlier trials through the same call
        // site, many of which ended in a mismatch or a caught panic, are then earlier installations.
        let harness_reset = rep % 2 == 0 && counter.is_some();
        if let (true, Some(c)) = (harness_reset, counter) {
            c.store(0, Ordering::SeqCst);
        }
        let mut inj = ip::lib(InjectorPP::new);
        ip::lib(|| install(&mut inj, arm, pair));
        // the calls: k matching + m non-matching, shuffled, dealt round-robin to t threads
        let mut calls: Vec<bool> = std::iter::repeat(true).take(k).chain(std::iter::repeat(false).take(m)).collect();
        for i in (1..calls.len()).rev() {
            let j = rng.below(i as u64 + 1) as usize;
            calls.swap(i, j);
        }
        let epoch = Instant::now();
        let results: Vec<(bool, Result<i64, String>, u128, u128)> = if t == 1 {
            calls.iter().map(|&mt| {
                let a = epoch.elapsed().as_nanos();
                let r = call(arm, mt);
                (mt, r, a, epoch.elapsed().as_nanos())
            }).collect()
        } else {
            let go = Arc::new(AtomicBool::new(false));
            let ready = Arc::new(AtomicUsize::new(0));
            let hs: Vec<_> = (0..t)
                .map(|ti| {
                    let mine: Vec<bool> = calls.iter().enumerate().filter(|(i, _)| i % t == ti).map(|(_, &c)| c).collect();
                    let go = go.clone();
                    let ready = ready.clone();
                    std::thread::spawn(move || {
                        ready.fetch_add(1, Ordering::SeqCst);
                        while !go.load(Ordering::Acquire) {
                            std::hint::spin_loop();
                        }
                        mine.into_iter()
                            .map(|mt| {
                                let a = epoch.elapsed().as_nanos();
                                let r = call(arm, mt);
                                (mt, r, a, epoch.elapsed().as_nanos())
                            })
                            .collect::<Vec<_>>()
                    })
                })
                .collect();
            while ready.load(Ordering::SeqCst) < t {
                std::hint::spin_loop();
            }
            go.store(true, Ordering::Release);
            hs.into_iter().flat_map(|h| h.join().unwrap_or_default()).collect()
        };
        total_calls += results.len() as u64;
        // overlap evidence
        let mut wins: Vec<(u128, u128)> = results.iter().map(|r| (r.2, r.3)).collect();
        wins.sort();
        let overlapped = wins.windows(2).any(|w| w[1].0 < w[0].1);
        if overlapped {
            overlap_trials += 1;
        }
        // (not observable when the harness was built without access to the verifier's fields: taken as k)
        let count_after_calls = counter.map(|c| c.load(Ordering::SeqCst)).unwrap_or(k);
        let (dres, dmsgs) = panicobs::observe(|| ip::lib(|| drop(inj)));
        // ---- oracle
        let returned = results.iter().filter(|r| r.0 && r.1.is_ok()).count();
        // the property fixes no wording for the panics raised at a call: any panic is the rejection
        let over = results.iter().filter(|r| r.0 && r.1.is_err()).count();
        let other_matching = 0usize;
        let nonm_rejected = results.iter().filter(|r| !r.0 && r.1.is_err()).count();
        let wrong_value = results.iter().filter(|r| r.0 && r.1.as_ref().ok().map(|v| *v != faked_value(arm)).unwrap_or(false)).count();
        let mut d = J::new()
            .n("N", n)
            .n("k", k)
            .n("threads", t)
            .n("nonmatching", m)
            .n("returned", returned)
            .n("over_called_panics", over)
            .n("nonmatching_rejected", nonm_rejected)
            .n("counter_after_calls", count_after_calls)
            .b("overlap_observed", overlapped)
            .s("exit", &match &dres {
                Ok(_) => "no-panic".to_string(),
                Err(m) => m.clone(),
            });
        let mut sig = String::new();
        if returned != k.min(n) {
            sig = format!("admitted-{}-than-min-k-N", if returned > k.min(n) { "more" } else { "fewer" });
        } else if over != k.saturating_sub(n) || other_matching != 0 {
            sig = "calls-past-the-budget-not-rejected-as-over-called".into();
        } else if nonm_rejected != m {
            sig = "non-matching-call-not-rejected".into();
        } else if wrong_value != 0 {
            sig = "admitted-call-returned-wrong-value".into();
        } else if results.iter().any(|r| r.1.as_ref().err().map(|e| e.contains("|assigned")).unwrap_or(false)) {
            sig = "rejected-call-performed-the-fakes-assignment".into();
        } else if count_after_calls != k {
            sig = if m > 0 && count_after_calls == k + m { "non-matching-calls-were-counted".into() } else { "counter-differs-from-matching-calls".into() };
        } else {
            match &dres {
                Ok(_) if k != n => sig = "no-exit-panic-although-count-differs".into(),
                Err(msg) if k == n => {
                    sig = "exit-panic-although-count-matches".into();
                    d = d.s("msg", msg);
                }
                Err(msg) => {
                    let nums: Vec<usize> = msg.split(|c: char| !c.is_ascii_digit()).filter(|s| !s.is_empty()).filter_map(|s| s.parse().ok()).collect();
                    if !nums.contains(&n) || !nums.contains(&k) {
                        sig = "exit-panic-message-does-not-name-both-numbers".into();
                    }
                }
                _ => {}
            }
            if dmsgs.len() > 1 {
                sig = "more-than-one-panic-at-exit".into();
            }
        }
        // original back (sanity so that later trials are meaningful)
        if call(arm, true) != Ok(orig_value(arm)) {
            out::outcome(idx, &class, Verdict::Violated, "original-not-back", &d);
            std::process::exit(75);
        }
        *by_outcome.entry(if k == n { "exact".into() } else if k < n { "under".into() } else { "over".to_string() }).or_insert(0) += 1;
        // a multi-threaded trial in which no two call windows overlapped did not exercise concurrency:
        // still decided (the arithmetic holds), but classed separately
        let class2 = if t > 1 && !overlapped { format!("{}/no-overlap", class) } else { class.clone() };
        let class2 = if harness_reset { class2 } else { format!("{}/library-reset", class2) };
        let sig = if !sig.is_empty() && !harness_reset { format!("{}/counter-left-to-the-library", sig) } else { sig };
        out::outcome(idx, &class2, if sig.is_empty() { Verdict::Held } else { Verdict::Violated }, &sig, &d);
    }
    let race_hits = race_trials(ctx, trials.len() as u64);
    // ---- a call past the budget is rejected AT THE CALL whatever the caller is doing - also when it is made
    // by a destructor that runs while the calling thread unwinds from an unrelated, contained panic
    let mut unwinding_calls = 0u64;
    let mut special = trials.len() as u64 + 2;
    for &arm in &ARMS {
        for n in [0usize, 1, 2] {
            let idx = special;
            special += 1;
            if !ctx.mine(idx) {
                continue;
            }
            let class = format!("{:?}/N={}/over-budget-call-from-a-destructor-during-unwinding", arm, n);
            out::intent(idx, &class, &J::new().s("crash_sig", "call-during-unwinding"));
            N_STATIC.store(n, Ordering::SeqCst);
            let mut inj = ip::lib(InjectorPP::new);
            ip::lib(|| install(&mut inj, arm, make(arm)));
            let mut sig = String::new();
            for _ in 0..n {
                if call(arm, true) != Ok(faked_value(arm)) {
                    sig = "call-within-the-budget-not-admitted".into();
                }
            }
            struct CallsInDrop(Arm, std::sync::mpsc::Sender<(bool, Result<i64, String>)>, bool);
            impl Drop for CallsInDrop {
                fn drop(&mut self) {
                    // std::thread::panicking() is true here
                    let _ = self.1.send((true, call(self.0, true)));
                    if self.2 {
                        let _ = self.1.send((false, call(self.0, false)));
                    }
                }
            }
            let (tx, rx) = std::sync::mpsc::channel();
            let hw = has_when(arm);
            let _ = std::panic::catch_unwind(move || {
                let _g = CallsInDrop(arm, tx, hw);
                panic!("USER: unrelated panic, contained by the test body");
            });
            let _ = panicobs::take();
            for (matching, r) in rx.try_iter() {
                unwinding_calls += 1;
                if r.is_ok() && sig.is_empty() {
                    sig = if matching { "call-past-the-budget-admitted-while-the-caller-was-unwinding".into() } else { "non-matching-call-admitted-while-the-caller-was-unwinding".into() };
                }
            }
            let (dres, _) = panicobs::observe(|| ip::lib(|| drop(inj)));
            // N + 1 matching calls were made: the exit must say so
            if sig.is_empty() && dres.is_ok() {
                sig = "no-exit-panic-although-count-differs".into();
            }
            if call(arm, true) != Ok(orig_value(arm)) {
                out::outcome(idx, &class, Verdict::Violated, "original-not-back", &J::new());
                std::process::exit(75);
            }
            out::outcome(idx, &class, if sig.is_empty() { Verdict::Held } else { Verdict::Violated }, &sig, &J::new().n("N", n).s("exit", &dres.err().unwrap_or_else(|| "no-panic".into())));
        }
    }
    // ---- an IN-budget call made by a destructor during an unrelated contained unwind is a call like any other: it
    // is admitted, it is counted, and it uses up its slot of the budget
    for &arm in &[Arm::Ret, Arm::WhenRet, Arm::UnitAssign, Arm::UnsafeRet] {
        let idx = special;
        special += 1;
        if !ctx.mine(idx) {
            continue;
        }
        let class = format!("{:?}/N=2/in-budget-call-from-a-destructor-during-unwinding", arm);
        out::intent(idx, &class, &J::new().s("crash_sig", "call-during-unwinding"));
        N_STATIC.store(2, Ordering::SeqCst);
        let mut inj = ip::lib(InjectorPP::new);
        ip::lib(|| install(&mut inj, arm, make(arm)));
        let first = call(arm, true);
        struct OneCallInDrop(Arm, std::sync::mpsc::Sender<Result<i64, String>>);
        impl Drop for OneCallInDrop {
            fn drop(&mut self) {
                let _ = self.1.send(call(self.0, true));
            }
        }
        let (tx, rx) = std::sync::mpsc::channel();
        let _ = std::panic::catch_unwind(move || {
            let _g = OneCallInDrop(arm, tx);
            panic!("USER: unrelated panic, contained by the test body");
        });
        let _ = panicobs::take();
        let second = rx.try_recv().unwrap_or(Err("no call was made".into()));
        unwinding_calls += 1;
        let third = call(arm, true); // the budget of two is spent: this one is over it
        let (dres, _) = panicobs::observe(|| ip::lib(|| drop(inj)));
        let sig = if first != Ok(faked_value(arm)) || second != Ok(faked_value(arm)) {
            "call-within-the-budget-not-admitted"
        } else if third.is_ok() {
            "call-past-the-budget-admitted-after-a-call-made-during-unwinding"
        } else if dres.is_ok() {
            "no-exit-panic-although-count-differs"
        } else {
            ""
        };
        if call(arm, true) != Ok(orig_value(arm)) {
            out::outcome(idx, &class, Verdict::Violated, "original-not-back", &J::new());
            std::process::exit(75);
        }
        out::outcome(idx, &class, if sig.is_empty() { Verdict::Held } else { Verdict::Violated }, sig, &J::new().s("calls", &format!("{:?} {:?} {:?}", first, second, third)).s("exit", &dres.err().unwrap_or_else(|| "no-panic".into())));
    }
    // ---- two counted fakes of different fake! arms alive in one injector (two of them `unsafe extern "C"` arms):
    // each has its own count - exactly N calls to each, nothing is rejected and the scope exit is silent; one call
    // short on ONE of them, and the scope exit says so
    {
        let pair_names = ["fn/returns", "fn/when+returns", "unsafe extern C/returns", "unsafe extern C/when+returns"];
        let arm_pair = |inj: &mut InjectorPP, which: usize, n: usize| {
            PAIR_N[which].store(n, Ordering::SeqCst);
            match which {
                0 => inj.when_called(injectorpp::func!(fn (tgt_b)(i32) -> i32)).will_execute(injectorpp::fake!(func_type: fn(_a: i32) -> i32, returns: 55, times: PAIR_N[0].load(Ordering::SeqCst))),
                1 => inj.when_called(injectorpp::func!(fn (tgt_a)(i32) -> i32)).will_execute(injectorpp::fake!(func_type: fn(a: i32) -> i32, when: a == 7, returns: 107, times: PAIR_N[1].load(Ordering::SeqCst))),
                2 => inj.when_called(injectorpp::func!(unsafe{} extern "C" fn (tgt_g)(i32) -> i32)).will_execute(injectorpp::fake!(func_type: unsafe extern "C" fn(_a: i32) -> i32, returns: 70, times: PAIR_N[2].load(Ordering::SeqCst))),
                _ => inj.when_called(injectorpp::func!(unsafe{} extern "C" fn (tgt_h)(i32) -> i32)).will_execute(injectorpp::fake!(func_type: unsafe extern "C" fn(a: i32) -> i32, when: a == 7, returns: 71, times: PAIR_N[3].load(Ordering::SeqCst))),
            }
        };
        let call_pair = |which: usize| -> Result<i64, String> {
            std::panic::catch_unwind(move || match which {
                0 => tgt_b(7) as i64,
                1 => tgt_a(7) as i64,
                2 => unsafe { tgt_g(7) as i64 },
                _ => unsafe { tgt_h(7) as i64 },
            })
            .map_err(|p| panicobs::classify(&panicobs::payload_msg(&p)).to_string())
        };
        let want = [55i64, 107, 70, 71];
        for a in 0..4usize {
            for b in (a + 1)..4usize {
                for short in [false, true] {
                    let idx = special;
                    special += 1;
                    if !ctx.mine(idx) {
                        continue;
                    }
                    let class = format!("two-counted-fakes-alive/{}+{}/{}", pair_names[a], pair_names[b], if short { "one-call-short" } else { "exact" });
                    out::intent(idx, &class, &J::new().s("crash_sig", "two-counted-fakes"));
                    let mut inj = ip::lib(InjectorPP::new);
                    ip::lib(|| arm_pair(&mut inj, a, 2));
                    ip::lib(|| arm_pair(&mut inj, b, 2));
                    let mut res = Vec::new();
                    // interleaved: a b a b (the last one left out when `short`)
                    for (k, w) in [a, b, a, b].iter().enumerate() {
                        if short && k == 3 {
                            continue;
                        }
                        res.push((*w, call_pair(*w)));
                    }
                    let (dres, _) = panicobs::observe(|| ip::lib(|| drop(inj)));
                    let all_ok = res.iter().all(|(w, r)| *r == Ok(want[*w]));
                    let sig = if !all_ok {
                        "call-within-its-own-budget-rejected-or-wrong-with-another-counted-fake-alive"
                    } else if !short && dres.is_err() {
                        "exit-panic-although-count-matches"
                    } else if short && dres.is_ok() {
                        "no-exit-panic-although-count-differs"
                    } else {
                        ""
                    };
                    out::outcome(idx, &class, if sig.is_empty() { Verdict::Held } else { Verdict::Violated }, sig, &J::new().s("calls", &format!("{:?}", res)).s("exit", &dres.err().unwrap_or_else(|| "no-panic".into())));
                }
            }
        }
    }
    // ---- a refused installation (contained by the test body) leaves the expectations of the fakes installed before it
    // alone: a counted fake, then a refused uncounted / counted fake!, then one call too few - the exit says so
    for &arm in &[Arm::Ret, Arm::WhenRet] {
        for refused_is_counted in [false, true] {
            let idx = special;
            special += 1;
            if !ctx.mine(idx) {
                continue;
            }
            let class = format!("{:?}/N=2/refused-{}-fake-after-it/one-call-short", arm, if refused_is_counted { "counted" } else { "uncounted" });
            out::intent(idx, &class, &J::new().s("crash_sig", "refused-after-counted"));
            N_STATIC.store(2, Ordering::SeqCst);
            let mut inj = ip::lib(InjectorPP::new);
            ip::lib(|| install(&mut inj, arm, make(arm)));
            let refused = std::panic::catch_unwind(std::panic::AssertUnwindSafe(|| {
                if refused_is_counted {
                    inj.when_called(injectorpp::func!(fn (tgt_e)(i32) -> i32)).will_execute(injectorpp::fake!(func_type: fn(_a: i64) -> i32, returns: 1, times: 1));
                } else {
                    inj.when_called(injectorpp::func!(fn (tgt_e)(i32) -> i32)).will_execute(injectorpp::fake!(func_type: fn(_a: i64) -> i32, returns: 1));
                }
            }))
            .is_err();
            let _ = panicobs::take();
            let one = call(arm, true);
            let (dres, _) = panicobs::observe(|| ip::lib(|| drop(inj)));
            let sig = if !refused {
                "" // whether it is refused is C09's business
            } else if one != Ok(faked_value(arm)) {
                "call-within-the-budget-not-admitted"
            } else if dres.is_ok() {
                "no-exit-panic-although-count-differs"
            } else {
                ""
            };
            if call(arm, true) != Ok(orig_value(arm)) {
                out::outcome(idx, &class, Verdict::Violated, "original-not-back", &J::new());
                std::process::exit(75);
            }
            out::outcome(idx, &class, if sig.is_empty() { Verdict::Held } else { Verdict::Violated }, sig, &J::new().b("the_later_installation_was_refused", refused).s("exit", &dres.err().unwrap_or_else(|| "no-panic".into())));
        }
    }
    // ---- the verdict of a lifetime is computed before the next lifetime of the same call site can start:
    // thread B waits in InjectorPP::new() while A's scope ends; A's scope exit is stretched by delays in its
    // deallocations (harness allocator), B installs through the same fake! line as soon as it is admitted and
    // makes no call until A is completely gone. A made exactly N calls: its exit must not panic.
    let mut stretched_exits = 0u64;
    for &arm in &[Arm::Ret, Arm::UnitAssign, Arm::WhenRet, Arm::UnitTimes] {
        for rep in 0..3u64 {
            let idx = special;
            special += 1;
            if !ctx.mine(idx) {
                continue;
            }
            let class = format!("{:?}/N=1/next-lifetime-of-the-site-queued-while-this-one-ends", arm);
            out::intent(idx, &class, &J::new().n("rep", rep).s("crash_sig", "queued-next-lifetime"));
            N_STATIC.store(1, Ordering::SeqCst);
            let mut inj = ip::lib(InjectorPP::new);
            ip::lib(|| install(&mut inj, arm, make(arm)));
            let first = call(arm, true);
            let (a_gone_tx, a_gone_rx) = std::sync::mpsc::channel::<()>();
            let b_started = Arc::new(AtomicBool::new(false));
            let b_started2 = b_started.clone();
            let hb = std::thread::spawn(move || {
                b_started2.store(true, Ordering::SeqCst);
                let mut calls = Vec::new();
                let (r, _) = panicobs::observe(|| {
                    let mut inj = InjectorPP::new(); // queued behind A
                    install(&mut inj, arm, make(arm));
                    let _ = a_gone_rx.recv_timeout(std::time::Duration::from_secs(20));
                    calls.push(call(arm, true));
                    drop(inj);
                });
                (calls, r)
            });
            while !b_started.load(Ordering::SeqCst) {
                std::hint::spin_loop();
            }
            std::thread::sleep(std::time::Duration::from_millis(20)); // B is now blocked in new()
            crate::delayalloc::arm(8, 15_000);
            let (dres, _) = panicobs::observe(|| ip::lib(|| drop(inj)));
            crate::delayalloc::disarm();
            stretched_exits += 1;
            let _ = a_gone_tx.send(());
            let (b_calls, b_exit) = hb.join().unwrap_or((Vec::new(), Err("B panicked outside the observer".into())));
            let mut sig = String::new();
            if first != Ok(faked_value(arm)) {
                sig = "call-within-the-budget-not-admitted".into();
            } else if dres.is_err() {
                sig = "exit-verdict-computed-after-the-next-lifetime-of-the-site-started".into();
            } else if b_calls.first() != Some(&Ok(faked_value(arm))) || b_exit.is_err() {
                sig = "next-lifetime-of-the-site-disturbed-by-the-previous-one".into();
            }
            if call(arm, true) != Ok(orig_value(arm)) {
                out::outcome(idx, &class, Verdict::Violated, "original-not-back", &J::new());
                std::process::exit(75);
            }
            out::outcome(idx, &class, if sig.is_empty() { Verdict::Held } else { Verdict::Violated }, &sig, &J::new().s("exit_of_the_ending_lifetime", &dres.err().unwrap_or_else(|| "no-panic".into())).s("next_lifetime", &format!("{:?} / {:?}", b_calls, b_exit)));
        }
    }
    // ---- the budget of a fake belongs to the user's calls. Functions a library might be tempted to call itself
    // (clock, file reader, environment) are faked with `times: 0` and never called by the test; then another
    // fake is installed, used and removed through the same injector while a second thread queues for the guard.
    // Any panic means the library's own work went through the user's fake and was charged to it.
    let mut bystander_trials = 0u64;
    let bystanders: Vec<(&str, Box<dyn Fn(&mut InjectorPP)>)> = vec![
        ("std::time::Instant::now", Box::new(|inj: &mut InjectorPP| inj.when_called(injectorpp::func!(fn (std::time::Instant::now)() -> std::time::Instant)).will_execute(injectorpp::fake!(func_type: fn() -> std::time::Instant, returns: std::time::Instant::now(), times: 0)))),
        ("std::time::SystemTime::now", Box::new(|inj: &mut InjectorPP| inj.when_called(injectorpp::func!(fn (std::time::SystemTime::now)() -> std::time::SystemTime)).will_execute(injectorpp::fake!(func_type: fn() -> std::time::SystemTime, returns: std::time::UNIX_EPOCH, times: 0)))),
        ("std::fs::read_to_string::<&str>", Box::new(|inj: &mut InjectorPP| inj.when_called(injectorpp::func!(std::fs::read_to_string::<&'static str>, fn(&'static str) -> std::io::Result<String>)).will_execute(injectorpp::fake!(func_type: fn(_p: &'static str) -> std::io::Result<String>, returns: Ok(String::new()), times: 0)))),
        ("std::env::var::<&str>", Box::new(|inj: &mut InjectorPP| inj.when_called(injectorpp::func!(std::env::var::<&'static str>, fn(&'static str) -> Result<String, std::env::VarError>)).will_execute(injectorpp::fake!(func_type: fn(_k: &'static str) -> Result<String, std::env::VarError>, returns: Err(std::env::VarError::NotPresent), times: 0)))),
    ];
    for (name, arm_bystander) in bystanders.iter() {
        let idx = special;
        special += 1;
        if !ctx.mine(idx) {
            continue;
        }
        let class = format!("bystander-with-times-0/{}", name);
        out::intent(idx, &class, &J::new().s("crash_sig", "bystander"));
        let holder_in = Arc::new(AtomicBool::new(false));
        let holder_in2 = holder_in.clone();
        // a thread that queues for the guard while the bystander fake is live
        let w = std::thread::spawn(move || {
            while !holder_in2.load(Ordering::SeqCst) {
                std::hint::spin_loop();
            }
            let (r, _) = panicobs::observe(|| {
                let i = InjectorPP::new();
                drop(i);
                let p = InjectorPP::prevent();
                drop(p);
            });
            r
        });
        let (res, msgs) = panicobs::observe(|| {
            let mut inj = InjectorPP::new();
            arm_bystander(&mut inj);
            holder_in.store(true, Ordering::SeqCst);
            N_STATIC.store(1, Ordering::SeqCst);
            install(&mut inj, Arm::Ret, make(Arm::Ret));
            let v = call(Arm::Ret, true);
            std::thread::sleep(std::time::Duration::from_millis(5)); // the other thread is queueing now
            inj.when_called(injectorpp::func!(fn (tgt_e)(i32) -> i32)).will_execute_raw(injectorpp::func!(fn (tgt_b2)(i32) -> i32));
            drop(inj);
            v
        });
        let wres = w.join().unwrap_or(Err("queueing thread died".into()));
        bystander_trials += 1;
        let mut sig = String::new();
        let mut d = J::new().s("bystander", name).n("panics", msgs.len());
        match (&res, &wres) {
            (Ok(Ok(v)), Ok(())) if *v == faked_value(Arm::Ret) && msgs.is_empty() => {}
            (Err(m), _) => {
                sig = "library-work-went-through-a-fake-the-user-never-called".into();
                d = d.s("panic_on_the_holder_thread", m);
            }
            (_, Err(m)) => {
                sig = "library-work-went-through-a-fake-the-user-never-called".into();
                d = d.s("panic_on_the_queueing_thread", m);
            }
            _ => {
                sig = "library-work-went-through-a-fake-the-user-never-called".into();
                d = d.s("holder", &format!("{:?}", res)).s("panics_seen", &format!("{:?}", msgs));
            }
        }
        if call(Arm::Ret, true) != Ok(orig_value(Arm::Ret)) {
            out::outcome(idx, &class, Verdict::Violated, "original-not-back", &d);
            std::process::exit(75);
        }
        out::outcome(idx, &class, if sig.is_empty() { Verdict::Held } else { Verdict::Violated }, &sig, &d);
    }
    // ---- calls that arrive while the scope is being left. The library's own mprotect on the restore path is slowed
    // to 25 ms (delay injected in the interposed call), a worker hammers the target from the moment the scope exit
    // starts; the budget (1) is already spent. Every call that still reaches the fake is rejected there - and a
    // rejection that was complete well before the scope exit returned must show in the exit verdict.
    let mut exit_race_trials = 0u64;
    let mut exit_race_rejections = 0u64;
    for &arm in &[Arm::Ret, Arm::WhenRet, Arm::UnitAssign] {
        for rep in 0..3u64 {
            let idx = special;
            special += 1;
            if !ctx.mine(idx) {
                continue;
            }
            let class = format!("{:?}/N=1/calls-arriving-during-scope-exit", arm);
            out::intent(idx, &class, &J::new().n("rep", rep).s("crash_sig", "exit-race"));
            N_STATIC.store(1, Ordering::SeqCst);
            let mut inj = ip::lib(InjectorPP::new);
            ip::lib(|| install(&mut inj, arm, make(arm)));
            let first = call(arm, true);
            let epoch = Instant::now();
            let go = Arc::new(AtomicBool::new(false));
            let stop = Arc::new(AtomicBool::new(false));
            let (go2, stop2) = (go.clone(), stop.clone());
            let w = std::thread::spawn(move || {
                while !go2.load(Ordering::SeqCst) {
                    std::hint::spin_loop();
                }
                let mut rejected_done_at: Vec<u128> = Vec::new();
                let mut admitted = 0u64;
                let mut original = 0u64;
                while !stop2.load(Ordering::Relaxed) {
                    match call(arm, true) {
                        Err(_) => {
                            if rejected_done_at.len() < 4096 {
                                rejected_done_at.push(epoch.elapsed().as_micros());
                            }
                        }
                        Ok(v) if v == faked_value(arm) => admitted += 1,
                        Ok(_) => original += 1,
                    }
                    let _ = panicobs::take();
                }
                (rejected_done_at, admitted, original)
            });
            ip::set_delay(ip::K_MPROTECT, 25_000_000);
            go.store(true, Ordering::SeqCst);
            let (dres, _) = panicobs::observe(|| ip::lib(|| drop(inj)));
            let t_back = epoch.elapsed().as_micros();
            ip::disarm_all();
            std::thread::sleep(std::time::Duration::from_millis(1));
            stop.store(true, Ordering::SeqCst);
            let (rej, admitted, original) = w.join().unwrap_or((Vec::new(), 0, 0));
            exit_race_trials += 1;
            exit_race_rejections += rej.len() as u64;
            let early = rej.iter().filter(|t| **t + 10_000 < t_back).count();
            let mut sig = "";
            if first != Ok(faked_value(arm)) {
                sig = "call-within-the-budget-not-admitted";
            } else if admitted > 0 {
                sig = "admitted-more-than-min-k-N";
            } else if early > 0 && dres.is_ok() {
                sig = "calls-rejected-during-scope-exit-missing-from-the-exit-verdict";
            } else if rej.is_empty() && dres.is_err() {
                sig = "exit-panic-although-count-matches";
            }
            if call(arm, true) != Ok(orig_value(arm)) {
                out::outcome(idx, &class, Verdict::Violated, "original-not-back", &J::new());
                std::process::exit(75);
            }
            let d = J::new().n("calls_rejected_by_the_fake_during_scope_exit", rej.len()).n("of_which_complete_10ms_before_the_exit_returned", early).n("calls_that_reached_the_original", original).s("exit", &dres.err().unwrap_or_else(|| "no-panic".into()));
            if sig.is_empty() && rej.is_empty() {
                out::outcome(idx, &class, Verdict::Inconclusive, "no-call-arrived-during-the-scope-exit", &d);
            } else {
                out::outcome(idx, &class, if sig.is_empty() { Verdict::Held } else { Verdict::Violated }, sig, &d);
            }
        }
    }
    let bo = by_outcome.iter().fold(J::new(), |j, (k, v)| j.n(k, *v));
    out::summary(&J::new().n("scope_exits_with_calls_arriving", exit_race_trials).n("calls_rejected_during_a_scope_exit", exit_race_rejections).n("bystander_trials", bystander_trials).n("calls_made_by_destructors_during_unwinding", unwinding_calls).n("scope_exits_stretched_with_the_next_lifetime_queued", stretched_exits).n("deallocations_delayed", crate::delayalloc::DELAYED_FREES.load(Ordering::SeqCst)).n("calls_racing_with_an_installation", race_hits).n("trials_total", trials.len()).n("calls_made", total_calls).n("multithread_trials_with_overlapping_call_windows", overlap_trials).o("by_outcome", bo));
}

// ---------------------------------------------------------------------------------- C07
/// One lifetime through the shared set-up helper: same `fake!` expression every time, the harness
/// does NOT touch the counter. Returns (outcomes of the c calls, exit outcome).
fn helper_lifetime(arm: Arm, c: usize, end_in_panic: bool, prebuilt: Option<(FuncPtr, CallCountVerifier)>, on_alt_target: bool) -> (Vec<Result<i64, String>>, Result<(), String>) {
    USE_ALT_TARGET.with(|f| f.set(on_alt_target));
    let mut calls = Vec::new();
    let mut prebuilt = prebuilt;
    let (r, _) = panicobs::observe(|| {
        let mut inj = InjectorPP::new();
        // either the usual idiom (fake! evaluated as the argument of will_execute) or a fake that was
        // built earlier by the same helper line and is only installed now
        let pair = match prebuilt.take() {
            Some(p) => p,
            None => make(arm),
        };
        install(&mut inj, arm, pair);
        for _ in 0..c {
            calls.push(call(arm, true));
        }
        if end_in_panic {
            panic!("USER: lifetime ends in a caught panic");
        }
        drop(inj);
    });
    USE_ALT_TARGET.with(|f| f.set(false));
    (calls, r)
}

#[inline(never)]
fn between_target() -> i32 {
    std::hint::black_box(-9)
}

pub fn run_c07(ctx: &Ctx) {
    // all sequences of length <= 4 over N <= 2, c <= N+2, plus random longer ones
    let mut seqs: Vec<(Arm, usize, Vec<(usize, bool)>, bool, u8)> = Vec::new(); // (arm, N, [(c, ends in panic)], other thread, what else takes the library's lock between lifetimes)
    let arms: &[Arm] = if ctx.thorough { &ARMS } else { &[Arm::WhenRet, Arm::Ret, Arm::UnitAssign, Arm::UnsafeRet] };
    for &arm in arms {
        for n in 0..=2usize {
            let cs: Vec<usize> = (0..=n + 2).collect();
            let mut stack: Vec<Vec<usize>> = cs.iter().map(|&c| vec![c]).collect();
            let maxlen = if ctx.thorough { 4 } else { 3 };
            while let Some(s) = stack.pop() {
                if s.len() >= 2 {
                    seqs.push((arm, n, s.iter().map(|&c| (c, false)).collect(), false, 0));
                    if s.len() <= 3 {
                        seqs.push((arm, n, s.iter().map(|&c| (c, false)).collect(), false, 1 + (s.iter().sum::<usize>() % 3) as u8));
                    }
                }
                if s.len() < maxlen {
                    for &c in &cs {
                        let mut t = s.clone();
                        t.push(c);
                        stack.push(t);
                    }
                }
            }
        }
    }
    let mut rng = Rng::new(ctx.seed ^ 0xC07);
    let extra = if ctx.n > 0 { ctx.n } else if ctx.thorough { 150000 } else { 300 };
    for _ in 0..extra {
        let arm = *rng.pick(&ARMS);
        let n = *rng.pick(&[0usize, 1, 2, 3, 5, 8]);
        let len = 2 + rng.below(7) as usize;
        let s: Vec<(usize, bool)> = (0..len).map(|_| (rng.below(n as u64 + 3) as usize, rng.chance(1, 5))).collect();
        seqs.push((arm, n, s, rng.chance(1, 3), if rng.chance(1, 2) { 0 } else { 1 + rng.below(3) as u8 }));
    }
    let mut lifetimes = 0u64;
    let mut used: Vec<Arm> = Vec::new();
    for (idx, (arm, n, seq, threads, between)) in seqs.iter().enumerate() {
        let idx = idx as u64;
        if !ctx.mine(idx) {
            continue;
        }
        let shape: Vec<String> = seq.iter().map(|(c, p)| format!("{}{}", if c < n { "u" } else if c == n { "e" } else { "o" }, if *p { "!" } else { "" })).collect();
        let class = format!("{:?}/N={}/{}{}{}", arm, n, shape.join(""), if *threads { "/threads" } else { "" }, ["", "/between:empty-injector", "/between:preventer", "/between:other-fake"][*between as usize]);
        out::intent(idx, &class, &J::new().s("seq", &format!("{:?}", seq)).s("crash_sig", &format!("{:?}", arm)));
        N_STATIC.store(*n, Ordering::SeqCst);
        let mut sig = String::new();
        let mut d = J::new().n("N", *n).s("seq", &format!("{:?}", seq));
        // earlier sequences of this process went through the same call site: they are earlier
        // installations too
        let first_use = !used.contains(arm);
        used.push(*arm);
        // a third of the sequences build all their fakes up front (same source line) and install them one
        // lifetime after the other: counting must still start from zero at each installation
        let prebuilt_mode = idx % 3 == 1;
        let mut stock: Vec<(FuncPtr, CallCountVerifier)> = if prebuilt_mode { (0..seq.len()).map(|_| make(*arm)).collect() } else { Vec::new() };
        stock.reverse();
        for (li, &(c, pan)) in seq.iter().enumerate() {
            lifetimes += 1;
            let arm2 = *arm;
            // sequences with index 2 mod 5 install the fake on a second function of the same shape in every other
            // lifetime (where the arm has one): same source line, different target
            let on_alt = idx % 5 == 2 && li % 2 == 1 && matches!(arm2, Arm::WhenRet | Arm::Ret);
            if li > 0 {
                // something unrelated holds the library's lock between two lifetimes of the call site
                match *between {
                    1 => ip::lib(|| drop(InjectorPP::new())),
                    2 => ip::lib(|| drop(InjectorPP::prevent())),
                    3 => {
                        let mut inj = ip::lib(InjectorPP::new);
                        ip::lib(|| inj.when_called(injectorpp::func!(fn (between_target)() -> i32)).will_execute(injectorpp::fake!(func_type: fn() -> i32, returns: 9)));
                        let v = between_target();
                        ip::lib(|| drop(inj));
                        if v != 9 {
                            sig = "unrelated-fake-between-lifetimes-not-in-effect".into();
                            break;
                        }
                    }
                    _ => {}
                }
            }
            let pre = stock.pop();
            let (calls, exit) = if *threads {
                // FuncPtr is not Send: threaded sequences always use the usual idiom
                if let Some(p) = pre {
                    std::mem::forget(p);
                }
                std::thread::spawn(move || helper_lifetime(arm2, c, pan, None, on_alt)).join().unwrap()
            } else {
                helper_lifetime(arm2, c, pan, pre, on_alt)
            };
            // reference: the verdict is a function of (N, c) only
            let mut bad = None;
            for (ci, r) in calls.iter().enumerate() {
                let want_ok = ci < *n;
                match r {
                    Ok(v) if want_ok && *v == faked_value(*arm) => {}
                    Err(_) if !want_ok => {}
                    other => {
                        bad = Some(format!("call {} of lifetime {}: {:?}", ci, li, other));
                        break;
                    }
                }
            }
            // once a call panicked over budget inside the lifetime body, the body unwinds: our helper
            // catches per call, so the body continues; exit verdict:
            let want_exit_panic = pan || c != *n;
            let exit_kind = match &exit {
                Ok(_) => "no-panic".to_string(),
                Err(m) => panicobs::classify(m).to_string(),
            };
            let exit_ok = if pan { exit_kind == "user" } else if c != *n { exit_kind != "no-panic" && exit_kind != "user" } else { exit_kind == "no-panic" };
            let _ = want_exit_panic;
            if let Some(b) = bad {
                sig = if li > 0 || !first_use { "verdict-of-a-later-lifetime-depends-on-earlier-calls".into() } else { "first-lifetime-wrong".into() };
                d = d.s("witness", &b).n("lifetime_index", li);
                break;
            }
            if !exit_ok {
                sig = if li > 0 || !first_use { "exit-verdict-of-a-later-lifetime-depends-on-earlier-calls".into() } else { "first-lifetime-exit-wrong".into() };
                d = d.s("exit_seen", &exit_kind).s("exit_msg", &exit.clone().err().unwrap_or_default()).n("lifetime_index", li).n("c", c);
                break;
            }
        }
        // fakes that were built but never installed: their verifiers must not be "verified"
        for p in stock.drain(..) {
            std::mem::forget(p);
        }
        let class = if prebuilt_mode { format!("{}/prebuilt", class) } else { class };
        let class = if idx % 5 == 2 && matches!(arm, Arm::WhenRet | Arm::Ret) { format!("{}/other-target-every-second-lifetime", class) } else { class };
        out::outcome(idx, &class, if sig.is_empty() { Verdict::Held } else { Verdict::Violated }, &sig, &d);
    }
    let race_hits = race_trials(ctx, seqs.len() as u64);
    // ---- the same fake! line evaluated twice within ONE lifetime, on two functions, exactly N calls to each: the second
    // installation counts from zero too (its calls are all admitted) and nothing is left to complain about at scope exit
    let mut double_armings = 0u64;
    let mut sp = seqs.len() as u64 + 2;
    for &arm in &[Arm::WhenRet, Arm::Ret] {
        for n in [1usize, 2, 3] {
            for earlier in [0usize, 2] {
                let idx = sp;
                sp += 1;
                if !ctx.mine(idx) {
                    continue;
                }
                let class = format!("{:?}/N={}/same-line-armed-twice-in-one-lifetime/earlier-lifetime-absorbed-{}", arm, n, earlier);
                out::intent(idx, &class, &J::new().s("crash_sig", "double-arming"));
                N_STATIC.store(n, Ordering::SeqCst);
                if earlier > 0 {
                    // an earlier lifetime of the line that ends with a count other than N
                    let _ = helper_lifetime(arm, n + earlier, false, None, false);
                }
                let mut first: Vec<Result<i64, String>> = Vec::new();
                let mut second: Vec<Result<i64, String>> = Vec::new();
                let (exit, _) = panicobs::observe(|| {
                    let mut inj = InjectorPP::new();
                    USE_ALT_TARGET.with(|f| f.set(false));
                    install(&mut inj, arm, make(arm));
                    for _ in 0..n {
                        first.push(call(arm, true));
                    }
                    USE_ALT_TARGET.with(|f| f.set(true));
                    install(&mut inj, arm, make(arm));
                    for _ in 0..n {
                        second.push(call(arm, true));
                    }
                    USE_ALT_TARGET.with(|f| f.set(false));
                    drop(inj);
                });
                USE_ALT_TARGET.with(|f| f.set(false));
                double_armings += 1;
                let all_ok = |v: &Vec<Result<i64, String>>| v.len() == n && v.iter().all(|r| *r == Ok(faked_value(arm)));
                let sig = if !all_ok(&first) {
                    "first-lifetime-wrong"
                } else if !all_ok(&second) {
                    "calls-of-an-earlier-installation-of-the-line-counted-toward-a-later-one"
                } else if exit.is_err() {
                    "exit-verdict-of-a-later-installation-depends-on-earlier-calls"
                } else {
                    ""
                };
                out::outcome(idx, &class, if sig.is_empty() { Verdict::Held } else { Verdict::Violated }, sig, &J::new().n("N", n).s("first", &format!("{:?}", first)).s("second", &format!("{:?}", second)).s("exit", &exit.err().unwrap_or_else(|| "no-panic".into())));
            }
        }
    }
    out::summary(&J::new().n("same_line_armed_twice_in_one_lifetime", double_armings).n("sequences_total", seqs.len()).n("lifetimes_run", lifetimes).n("calls_racing_with_a_later_installation_of_the_site", race_hits));
}
