#![allow(dead_code)]
use crate::arena::*;
use crate::interpose as ip;
use crate::out::{self, J};
use crate::Ctx;
use injectorpp::interface::injector::*;

pub const SIG_I32: &str = "fn() -> i32";
pub const SIG_BOOL: &str = "fn() -> bool";
pub const RANGE: usize = 0x800_0000; // ±128 MiB: the reach the Linux x86-64 build promises

pub fn fp(addr: usize, sig: &'static str) -> FuncPtr {
    unsafe { FuncPtr::new(addr as *const (), sig) }
}

pub fn bytes_at(addr: usize, n: usize) -> Vec<u8> {
    crate::maps::read_vec(addr, n).unwrap_or_default()
}

/// the bytes at `addr` compared with an image taken earlier, over the length of THAT image (a mapping that has
/// appeared behind the end of an arena since must not make a 16-byte image look different from a 32-byte one)
pub fn img_differs(addr: usize, old: &[u8]) -> bool {
    match crate::maps::read_vec(addr, old.len()) {
        Some(v) => v != old,
        None => true,
    }
}

/// up to 32 bytes at `addr` (fewer when the mapping ends earlier)
pub fn img(addr: usize) -> Vec<u8> {
    for n in [32usize, 24, 16, 8, 6, 5] {
        if let Some(v) = crate::maps::read_vec(addr, n) {
            return v;
        }
    }
    Vec::new()
}

pub fn page_floor(a: usize) -> usize {
    a & !(PAGE - 1)
}
pub fn page_ceil(a: usize) -> usize {
    (a + PAGE - 1) & !(PAGE - 1)
}

/// library executable mappings created since `before` (ledger difference)
pub fn new_lib_mappings(before: &[(usize, usize)]) -> Vec<(usize, usize)> {
    ip::ledger_snapshot()
        .into_iter()
        .filter(|e| !before.contains(e))
        .collect()
}

/// A synthetic target: `mov eax, id; ret` at an arbitrary byte address inside a 2-page arena
/// filled with int3, first page r-x (as program text is), second page as requested.
pub struct SynthTarget {
    pub arena: Arena,
    pub addr: usize,
    pub id: u32,
    pub image: Vec<u8>,
}
impl SynthTarget {
    /// `page` = address of the first page; target placed at page + pgoff
    pub fn new(page: usize, pgoff: usize, id: u32, second_prot: i32) -> Option<SynthTarget> {
        let arena = Arena::map_at(page, 2 * PAGE, RWX)?;
        arena.fill(0xCC);
        let addr = page + pgoff;
        arena.write(addr, &code_ret_const(id, 6, 0xCC));
        arena.protect(page, PAGE, RX);
        arena.protect(page + PAGE, PAGE, second_prot);
        let image = bytes_at(addr, 32.min(page + 2 * PAGE - addr));
        Some(SynthTarget { arena, addr, id, image })
    }
    pub fn call(&self) -> i32 {
        unsafe { call0(self.addr) }
    }
    pub fn intact(&self) -> bool {
        bytes_at(self.addr, self.image.len()) == self.image
    }
}

/// A synthetic fake at an exact byte address (its own 1–2 page arena, r-x after writing).
pub struct SynthFake {
    pub arena: Arena,
    pub addr: usize,
    pub id: u32,
}
impl SynthFake {
    pub fn new(addr: usize, id: u32) -> Option<SynthFake> {
        if addr < PAGE || addr > 0x7fff_ffff_f000 - 16 {
            return None;
        }
        let lo = page_floor(addr);
        let hi = page_ceil(addr + 6);
        let arena = Arena::map_at(lo, hi - lo, RWX)?;
        arena.fill(0xCC);
        arena.write(addr, &code_ret_const(id, 6, 0xCC));
        arena.protect_all(RX);
        Some(SynthFake { arena, addr, id })
    }
}

/// lowest address at which the kernel honours a (non-fixed) mmap hint, probed
pub fn hint_floor() -> usize {
    let mut a = PAGE;
    while a <= 0x40_0000 {
        if crate::maps::is_free(a, PAGE) {
            let r = unsafe { ip::sys_mmap(a, PAGE, libc::PROT_NONE, libc::MAP_PRIVATE | libc::MAP_ANONYMOUS, -1, 0) };
            if r != -1 {
                unsafe {
                    ip::sys_munmap(r as usize, PAGE);
                }
                if r as usize == a {
                    return a;
                }
            }
        }
        a += PAGE;
    }
    0x40_0000
}

pub fn live_reader() -> impl Fn(usize, usize) -> Option<Vec<u8>> {
    |a, n| crate::maps::read_vec(a, n)
}

pub fn sig_name(s: i32) -> &'static str {
    match s {
        libc::SIGSEGV => "SIGSEGV",
        libc::SIGABRT => "SIGABRT",
        libc::SIGILL => "SIGILL",
        libc::SIGBUS => "SIGBUS",
        libc::SIGTRAP => "SIGTRAP",
        libc::SIGFPE => "SIGFPE",
        _ => "SIG?",
    }
}

/// Sanity check of the monitors themselves: interposition is bound, a synthetic install works.
pub fn selftest(_ctx: &Ctx) {
    let m0 = ip::mark();
    let low = lowest_mappable();
    let page = 0x4000_0000usize;
    let t = SynthTarget::new(page, 0x40, 1111, RX).expect("arena");
    let f = SynthFake::new(page + 0x10000 + 0x80, 2222).expect("fake arena");
    let before = t.call();
    let during;
    {
        let mut inj = ip::lib(|| InjectorPP::new());
        ip::lib(|| inj.when_called(fp(t.addr, SIG_I32)).will_execute_raw(fp(f.addr, SIG_I32)));
        during = t.call();
        ip::lib(|| drop(inj));
    }
    let after = t.call();
    let ev = ip::since(m0).unwrap_or_default();
    let kinds = |k: u8| ev.iter().filter(|e| e.kind == k && e.in_lib == 1).count();
    out::summary(
        &J::new()
            .x("lowest_mappable", low)
            .n("before", before)
            .n("during", during)
            .n("after", after)
            .n("ev_mmap", kinds(ip::EV_MMAP))
            .n("ev_munmap", kinds(ip::EV_MUNMAP))
            .n("ev_mprotect", kinds(ip::EV_MPROTECT))
            .n("ev_flush", kinds(ip::EV_FLUSH))
            .b("intact", t.intact())
            .o("counters", ip::counters_json()),
    );
    let ok = before == 1111 && during == 2222 && after == 1111 && kinds(ip::EV_MMAP) >= 1 && kinds(ip::EV_FLUSH) >= 2;
    std::process::exit(if ok { 0 } else { 3 });
}
