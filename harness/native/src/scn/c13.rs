//! C13 — redirection is transparent to the calling convention (M5 probes + Rust-level shapes);
//! also the stub half of C10 (forced boolean: exactly the value, nothing else).
use super::util::*;
use crate::arena::*;
use crate::interpose as ip;
use crate::out::{self, Verdict, J};
use crate::probe::*;
use crate::rng::{hash64, Rng};
use crate::x86;
use crate::Ctx;
use injectorpp::interface::injector::*;
use std::sync::atomic::{AtomicU64, Ordering};

const SIG_V: &str = "fn()";

fn near_page(salt: u64) -> usize {
    page_floor(vprobe_fake as usize).wrapping_sub(0x2000_0000 + (salt as usize % 64) * 0x10_0000)
}
fn far_page(salt: u64) -> usize {
    0x6900_0000_0000 + (salt as usize % 256) * 0x10_0000
}
fn low_page(salt: u64) -> usize {
    0x1000_0000 + (salt as usize % 64) * 0x10_0000
}

fn mk_target(page: usize, pgoff: usize, id: u32) -> Option<SynthTarget> {
    let mut p = page;
    for _ in 0..8 {
        if crate::maps::is_free(p, 2 * PAGE) {
            if let Some(t) = SynthTarget::new(p, pgoff, id, RX) {
                return Some(t);
            }
        }
        p += 64 * PAGE;
    }
    None
}

fn cmp(name: &str, a: u64, b: u64, bad: &mut Vec<String>) {
    if a != b {
        bad.push(format!("{}: {:#x} != {:#x}", name, a, b));
    }
}

/// compare what the assembly fake saw on entry with what the caller loaded
fn check_entry(inp: &Regs, seen: &Regs, call_rsp: u64) -> Vec<String> {
    let mut bad = Vec::new();
    cmp("rdi", seen.rdi, inp.rdi, &mut bad);
    cmp("rsi", seen.rsi, inp.rsi, &mut bad);
    cmp("rdx", seen.rdx, inp.rdx, &mut bad);
    cmp("rcx", seen.rcx, inp.rcx, &mut bad);
    cmp("r8", seen.r8, inp.r8, &mut bad);
    cmp("r9", seen.r9, inp.r9, &mut bad);
    cmp("rbx", seen.rbx, inp.rbx, &mut bad);
    cmp("rbp", seen.rbp, inp.rbp, &mut bad);
    cmp("r12", seen.r12, inp.r12, &mut bad);
    cmp("r13", seen.r13, inp.r13, &mut bad);
    cmp("r14", seen.r14, inp.r14, &mut bad);
    cmp("r15", seen.r15, inp.r15, &mut bad);
    for i in 0..8 {
        cmp(&format!("xmm{}.lo", i), seen.xmm[i][0], inp.xmm[i][0], &mut bad);
        cmp(&format!("xmm{}.hi", i), seen.xmm[i][1], inp.xmm[i][1], &mut bad);
        if crate::probe::has_avx() {
            cmp(&format!("ymm{}.bits128-191", i), seen.ymm_hi[i][0], inp.ymm_hi[i][0], &mut bad);
            cmp(&format!("ymm{}.bits192-255", i), seen.ymm_hi[i][1], inp.ymm_hi[i][1], &mut bad);
        }
    }
    for i in 0..4 {
        cmp(&format!("stack_arg{}", i), seen.stack[i], inp.stack[i], &mut bad);
    }
    cmp("canary_a@entry", seen.canary_a, inp.canary_a, &mut bad);
    cmp("canary_b@entry", seen.canary_b, inp.canary_b, &mut bad);
    cmp("rsp@entry", seen.rsp, call_rsp - 8, &mut bad);
    cmp("return-address", seen.retaddr, vprobe_after_call as usize as u64, &mut bad);
    if seen.rflags & (1 << 10) != 0 {
        bad.push("DF set at fake entry".into());
    }
    bad
}
/// compare what the caller sees after return
fn check_return(inp: &Regs, out: &Regs, call_rsp: u64) -> Vec<String> {
    let mut bad = Vec::new();
    cmp("rbx'", out.rbx, inp.rbx, &mut bad);
    cmp("rbp'", out.rbp, inp.rbp, &mut bad);
    cmp("r12'", out.r12, inp.r12, &mut bad);
    cmp("r13'", out.r13, inp.r13, &mut bad);
    cmp("r14'", out.r14, inp.r14, &mut bad);
    cmp("r15'", out.r15, inp.r15, &mut bad);
    cmp("rsp'", out.rsp, call_rsp, &mut bad);
    cmp("canary_a'", out.canary_a, inp.canary_a, &mut bad);
    cmp("canary_b'", out.canary_b, inp.canary_b, &mut bad);
    if out.rflags & (1 << 10) != 0 {
        bad.push("DF set after return".into());
    }
    bad
}

// ------------------------------------------------------------------ Rust-level shapes
#[repr(C)]
#[derive(Clone, Copy, Debug, PartialEq)]
pub struct Small {
    pub a: u64,
    pub b: u64,
}
#[repr(C)]
#[derive(Clone, Copy, Debug, PartialEq)]
pub struct Big {
    pub w: [u64; 16],
}

type F1 = fn(i64, i64, i64, i64, i64, i64, i64, i64, f64, f64, f64, f64, f64, f64, f64, f64, f64, Small, &mut u64) -> u64;
type F2 = fn(u8, Big) -> Big;
type F3 = fn(u64, u64) -> u128;
type F4 = fn(f64, f64) -> (f64, f64);
type F5 = fn(u64, f32) -> (u64, u64);

static SEEN_SUM: AtomicU64 = AtomicU64::new(0);
fn mix(h: u64, v: u64) -> u64 {
    hash64(h ^ v.wrapping_mul(0x9E37_79B9_7F4A_7C15))
}

#[inline(never)]
fn o1(a: i64, _b: i64, _c: i64, _d: i64, _e: i64, _f: i64, _g: i64, _h: i64, _x0: f64, _x1: f64, _x2: f64, _x3: f64, _x4: f64, _x5: f64, _x6: f64, _x7: f64, _x8: f64, _s: Small, _o: &mut u64) -> u64 {
    std::hint::black_box(a as u64 ^ 0xAAAA)
}
#[inline(never)]
fn k1(a: i64, b: i64, c: i64, d: i64, e: i64, f: i64, g: i64, h: i64, x0: f64, x1: f64, x2: f64, x3: f64, x4: f64, x5: f64, x6: f64, x7: f64, x8: f64, s: Small, o: &mut u64) -> u64 {
    let mut m = 1u64;
    for v in [a, b, c, d, e, f, g, h] {
        m = mix(m, v as u64);
    }
    for v in [x0, x1, x2, x3, x4, x5, x6, x7, x8] {
        m = mix(m, v.to_bits());
    }
    m = mix(m, s.a);
    m = mix(m, s.b);
    m = mix(m, *o);
    *o = m ^ 0x55;
    m
}
#[inline(never)]
fn o2(_t: u8, b: Big) -> Big {
    std::hint::black_box(b)
}
#[inline(never)]
fn k2(t: u8, b: Big) -> Big {
    let mut r = Big { w: [0; 16] };
    for i in 0..16 {
        r.w[i] = mix(b.w[i], t as u64 + i as u64);
    }
    r
}
#[inline(never)]
fn o3(a: u64, _b: u64) -> u128 {
    std::hint::black_box(a as u128)
}
#[inline(never)]
fn k3(a: u64, b: u64) -> u128 {
    ((mix(a, 1) as u128) << 64) | mix(b, 2) as u128
}
#[inline(never)]
fn o4(a: f64, _b: f64) -> (f64, f64) {
    std::hint::black_box((a, a))
}
#[inline(never)]
fn k4(a: f64, b: f64) -> (f64, f64) {
    (f64::from_bits(mix(a.to_bits(), 3) >> 2), f64::from_bits(mix(b.to_bits(), 4) >> 2))
}
#[inline(never)]
fn o5(a: u64, _b: f32) -> (u64, u64) {
    std::hint::black_box((a, a))
}
#[inline(never)]
fn k5(a: u64, b: f32) -> (u64, u64) {
    (mix(a, 5), mix(b.to_bits() as u64, 6))
}

/// run the five shapes through function pointers f1..f5 (either the Rust originals, faked, or
/// synthetic far targets faked), comparing with direct calls of the fakes
fn shapes_round(rng: &mut Rng, f1: F1, f2: F2, f3: F3, f4: F4, f5: F5) -> Vec<String> {
    let mut bad = Vec::new();
    let iv: Vec<i64> = (0..8).map(|_| rng.next() as i64).collect();
    let fv: Vec<f64> = (0..9).map(|_| f64::from_bits(rng.next() >> 2)).collect();
    let s = Small { a: rng.next(), b: rng.next() };
    let o0 = rng.next();
    let mut oa = o0;
    let mut ob = o0;
    let ra = f1(iv[0], iv[1], iv[2], iv[3], iv[4], iv[5], iv[6], iv[7], fv[0], fv[1], fv[2], fv[3], fv[4], fv[5], fv[6], fv[7], fv[8], s, &mut oa);
    let rb = k1(iv[0], iv[1], iv[2], iv[3], iv[4], iv[5], iv[6], iv[7], fv[0], fv[1], fv[2], fv[3], fv[4], fv[5], fv[6], fv[7], fv[8], s, &mut ob);
    if ra != rb || oa != ob {
        bad.push(format!("19-argument shape: {:#x}/{:#x} vs {:#x}/{:#x}", ra, oa, rb, ob));
    }
    let mut big = Big { w: [0; 16] };
    for i in 0..16 {
        big.w[i] = rng.next();
    }
    let t = rng.below(256) as u8;
    if f2(t, big) != k2(t, big) {
        bad.push("128-byte struct by value / hidden return slot shape".into());
    }
    let (a, b) = (rng.next(), rng.next());
    if f3(a, b) != k3(a, b) {
        bad.push("u128 (rax:rdx) return shape".into());
    }
    let (x, y) = (f64::from_bits(rng.next() >> 2), f64::from_bits(rng.next() >> 2));
    let (p, q) = (f4(x, y), k4(x, y));
    if p.0.to_bits() != q.0.to_bits() || p.1.to_bits() != q.1.to_bits() {
        bad.push("(f64,f64) (xmm0:xmm1) return shape".into());
    }
    let z = f32::from_bits((rng.next() >> 34) as u32);
    if f5(a, z) != k5(a, z) {
        bad.push("(u64,u64) with float argument shape".into());
    }
    bad
}

pub fn run_c13(ctx: &Ctx) {
    let per = if ctx.n > 0 { ctx.n } else if ctx.thorough { 60_000 } else { 1200 };
    // configurations: probe placement x page offset, then the Rust-level shapes near and far
    let mut cfgs: Vec<(&'static str, u64)> = Vec::new();
    let reps = if ctx.thorough { 8 } else { 1 };
    for r in 0..reps {
        for p in ["probe-near", "probe-far", "probe-low", "shapes-near", "shapes-far"] {
            cfgs.push((p, r));
        }
    }
    let mut files = 0u64;
    let mut forms: std::collections::BTreeMap<String, u64> = std::collections::BTreeMap::new();
    for (idx, &(kind, rep)) in cfgs.iter().enumerate() {
        let idx = idx as u64;
        if !ctx.mine(idx) {
            continue;
        }
        let mut rng = Rng::new(ctx.seed ^ hash64(idx ^ 0xC13));
        let class = format!("{}/rep{}", kind, rep % 2);
        out::intent(idx, &class, &J::new().s("kind", kind).n("register_files", per).s("crash_sig", kind));
        if kind.starts_with("probe") {
            let page = match kind {
                "probe-near" => near_page(idx + ctx.seed),
                "probe-far" => far_page(idx + ctx.seed),
                _ => low_page(idx + ctx.seed),
            };
            let pgoff = *rng.pick(&[0usize, 0x10, 0x7f1, 0xffd, 0xff8]);
            let t = match mk_target(page, pgoff, 0x1357_9BDF) {
                Some(t) => t,
                None => {
                    out::outcome(idx, &class, Verdict::Inconclusive, "skip:target-unmappable", &J::new());
                    continue;
                }
            };
            // control: the probe itself around the un-faked target
            let inp = random_regs(&mut rng);
            let (o, _s, e) = unsafe { probed_call(t.addr, &inp, &Regs::zero()) };
            let call_rsp = unsafe { saved_rsp() } - 48;
            let ctl = check_return(&inp, &o, call_rsp);
            if !ctl.is_empty() || e != 0 || (o.rax & 0xffff_ffff) != 0x1357_9BDF {
                out::outcome(idx, &class, Verdict::Inconclusive, "probe-selfcheck-failed", &J::new().s("ctl", &format!("{:?}", ctl)));
                continue;
            }
            let mut inj = ip::lib(InjectorPP::new);
            ip::lib(|| inj.when_called(fp(t.addr, SIG_V)).will_execute_raw(fp(vprobe_fake as usize, SIG_V)));
            let reader = live_reader();
            let w = x86::follow(t.addr, vprobe_fake as usize, &reader);
            let form = format!("{}", w.words.iter().map(|b| b.len().to_string()).collect::<Vec<_>>().join("+"));
            *forms.entry(format!("{}:{}", kind, form)).or_insert(0) += 1;
            let scratch: Vec<&str> = w.written.clone();
            let mut bad: Vec<String> = Vec::new();
            let mut n_done = 0;
            for _ in 0..per {
                let inp = random_regs(&mut rng);
                let ret = random_regs(&mut rng);
                let (o, s, e) = unsafe { probed_call(t.addr, &inp, &ret) };
                files += 1;
                n_done += 1;
                let call_rsp = unsafe { saved_rsp() } - 48;
                if e != 1 {
                    bad.push(format!("fake entered {} times", e));
                    break;
                }
                bad.extend(check_entry(&inp, &s, call_rsp));
                bad.extend(check_return(&inp, &o, call_rsp));
                cmp("rax (return)", o.rax, ret.rax, &mut bad);
                cmp("rdx (return)", o.rdx2, ret.rdx2, &mut bad);
                cmp("xmm0.lo (return)", o.xmm[0][0], ret.xmm[0][0], &mut bad);
                cmp("xmm0.hi (return)", o.xmm[0][1], ret.xmm[0][1], &mut bad);
                cmp("xmm1.lo (return)", o.xmm[1][0], ret.xmm[1][0], &mut bad);
                cmp("xmm1.hi (return)", o.xmm[1][1], ret.xmm[1][1], &mut bad);
                if crate::probe::has_avx() {
                    for k in 0..2 {
                        cmp(&format!("ymm{}.bits128-191 (return)", k), o.ymm_hi[k][0], ret.ymm_hi[k][0], &mut bad);
                        cmp(&format!("ymm{}.bits192-255 (return)", k), o.ymm_hi[k][1], ret.ymm_hi[k][1], &mut bad);
                    }
                }
                if !bad.is_empty() {
                    break;
                }
            }
            ip::lib(|| drop(inj));
            let d = J::new().x("target", t.addr).s("path", &format!("{:x?}", w.path)).s("trampoline_scratch_registers", &format!("{:?}", scratch)).n("register_files", n_done).arr_s("mismatches", &bad);
            if bad.is_empty() {
                out::outcome(idx, &class, Verdict::Held, "", &d);
            } else {
                let first = bad[0].split(':').next().unwrap_or("").to_string();
                out::outcome(idx, &class, Verdict::Violated, &format!("register-or-stack-field-differs:{}", first.split('.').next().unwrap_or("")), &d);
            }
        } else {
            // Rust-level shapes
            let far = kind == "shapes-far";
            let mut keep: Vec<SynthTarget> = Vec::new();
            let (f1, f2, f3, f4, f5): (F1, F2, F3, F4, F5);
            let mut inj = ip::lib(InjectorPP::new);
            if far {
                let mut addrs = Vec::new();
                for k in 0..5u64 {
                    match mk_target(far_page(idx * 7 + k + ctx.seed) + 0x4000_0000 * k as usize, 0x20 + 0x100 * k as usize, 0xDEAD) {
                        Some(t) => {
                            addrs.push(t.addr);
                            keep.push(t);
                        }
                        None => {}
                    }
                }
                if addrs.len() != 5 {
                    out::outcome(idx, &class, Verdict::Inconclusive, "skip:target-unmappable", &J::new());
                    continue;
                }
                unsafe {
                    f1 = std::mem::transmute(addrs[0]);
                    f2 = std::mem::transmute(addrs[1]);
                    f3 = std::mem::transmute(addrs[2]);
                    f4 = std::mem::transmute(addrs[3]);
                    f5 = std::mem::transmute(addrs[4]);
                }
                ip::lib(|| unsafe {
                    inj.when_called_unchecked(fp(addrs[0], "")).will_execute_raw_unchecked(injectorpp::func_unchecked!(k1));
                    inj.when_called_unchecked(fp(addrs[1], "")).will_execute_raw_unchecked(injectorpp::func_unchecked!(k2));
                    inj.when_called_unchecked(fp(addrs[2], "")).will_execute_raw_unchecked(injectorpp::func_unchecked!(k3));
                    inj.when_called_unchecked(fp(addrs[3], "")).will_execute_raw_unchecked(injectorpp::func_unchecked!(k4));
                    inj.when_called_unchecked(fp(addrs[4], "")).will_execute_raw_unchecked(injectorpp::func_unchecked!(k5));
                });
            } else {
                f1 = o1;
                f2 = o2;
                f3 = o3;
                f4 = o4;
                f5 = o5;
                ip::lib(|| {
                    inj.when_called(injectorpp::func!(o1, F1)).will_execute_raw(injectorpp::func!(k1, F1));
                    inj.when_called(injectorpp::func!(o2, F2)).will_execute_raw(injectorpp::func!(k2, F2));
                    inj.when_called(injectorpp::func!(o3, F3)).will_execute_raw(injectorpp::func!(k3, F3));
                    inj.when_called(injectorpp::func!(o4, F4)).will_execute_raw(injectorpp::func!(k4, F4));
                    inj.when_called(injectorpp::func!(o5, F5)).will_execute_raw(injectorpp::func!(k5, F5));
                });
            }
            let mut bad = Vec::new();
            let mut n_done = 0;
            for _ in 0..per {
                let f1b: F1 = std::hint::black_box(f1);
                let f2b: F2 = std::hint::black_box(f2);
                let f3b: F3 = std::hint::black_box(f3);
                let f4b: F4 = std::hint::black_box(f4);
                let f5b: F5 = std::hint::black_box(f5);
                bad = shapes_round(&mut rng, f1b, f2b, f3b, f4b, f5b);
                files += 5;
                n_done += 1;
                if !bad.is_empty() {
                    break;
                }
            }
            ip::lib(|| drop(inj));
            let d = J::new().n("rounds", n_done).arr_s("mismatches", &bad);
            if bad.is_empty() {
                out::outcome(idx, &class, Verdict::Held, "", &d);
            } else {
                out::outcome(idx, &class, Verdict::Violated, "rust-level-argument-or-return-shape-corrupted", &d);
            }
        }
    }
    let fj = forms.iter().fold(J::new(), |j, (k, v)| j.n(k, *v));
    out::summary(&J::new().n("register_files_and_shape_calls", files).o("redirect_forms_seen(instruction lengths entry+trampoline)", fj));
    let _ = SEEN_SUM.load(Ordering::SeqCst);
}

// ------------------------------------------------------------------ C10, stub half
#[inline(never)]
fn bool0() -> bool {
    std::hint::black_box(false)
}
#[inline(never)]
fn bool3(a: u64, b: &u8, c: f64) -> bool {
    std::hint::black_box(a as f64 + *b as f64 > c)
}
#[inline(never)]
fn bool8(a: u64, b: u64, c: u64, d: u64, e: u64, f: u64, g: u64, h: u64) -> bool {
    std::hint::black_box(a ^ b ^ c ^ d ^ e ^ f ^ g ^ h) & 1 == 1
}
#[inline(never)]
unsafe extern "C" fn boolc(a: i32) -> bool {
    std::hint::black_box(a) > 0
}

pub fn run_c10_stub(ctx: &Ctx) {
    let per = if ctx.n > 0 { ctx.n } else if ctx.thorough { 60_000 } else { 1200 };
    let mut cfgs = Vec::new();
    let reps = if ctx.thorough { 8 } else { 1 };
    for r in 0..reps {
        for place in ["near", "far", "low"] {
            for v in [true, false] {
                cfgs.push((place, v, r));
            }
        }
        for v in [true, false] {
            cfgs.push(("rust-fns", v, r));
        }
    }
    let mut files = 0u64;
    for (idx, &(place, value, rep)) in cfgs.iter().enumerate() {
        let idx = idx as u64;
        if !ctx.mine(idx) {
            continue;
        }
        let mut rng = Rng::new(ctx.seed ^ hash64(idx ^ 0xC10));
        let class = format!("stub/{}/{}/rep{}", place, value, rep % 2);
        out::intent(idx, &class, &J::new().s("crash_sig", &format!("stub/{}", place)));
        let mut bad: Vec<String> = Vec::new();
        let mut n_done = 0u64;
        if place == "rust-fns" {
            let mut inj = ip::lib(InjectorPP::new);
            ip::lib(|| {
                inj.when_called(injectorpp::func!(fn (bool0)() -> bool)).will_return_boolean(value);
                inj.when_called(injectorpp::func!(fn (bool3)(u64, &u8, f64) -> bool)).will_return_boolean(value);
                inj.when_called(injectorpp::func!(fn (bool8)(u64, u64, u64, u64, u64, u64, u64, u64) -> bool)).will_return_boolean(value);
                inj.when_called(injectorpp::func!(unsafe{} extern "C" fn (boolc)(i32) -> bool)).will_return_boolean(value);
            });
            for _ in 0..per {
                let x = rng.next();
                let b = rng.below(256) as u8;
                let r = [bool0(), bool3(x, &b, f64::from_bits(rng.next() >> 2)), bool8(x, rng.next(), rng.next(), rng.next(), rng.next(), rng.next(), rng.next(), rng.next()), unsafe { boolc(x as i32) }];
                files += 4;
                n_done += 1;
                if r.iter().any(|&q| q != value) {
                    bad.push(format!("a forced-boolean Rust function returned {:?}", r));
                    break;
                }
            }
            // forcing the same functions again (other value, then the first value again) through the same
            // injector: every call returns exactly the value requested LAST
            for v2 in [!value, value, !value] {
                ip::lib(|| {
                    inj.when_called(injectorpp::func!(fn (bool0)() -> bool)).will_return_boolean(v2);
                    inj.when_called(injectorpp::func!(fn (bool8)(u64, u64, u64, u64, u64, u64, u64, u64) -> bool)).will_return_boolean(v2);
                });
                for k in 0..8u64 {
                    if bool0() != v2 || bool8(k, 1, 2, 3, 4, 5, 6, 7) != v2 {
                        bad.push(format!("forced again to {}: a call returned the other value", v2));
                        break;
                    }
                }
            }
            ip::lib(|| drop(inj));
            if bool0() || !bool8(1, 0, 0, 0, 0, 0, 0, 0) {
                bad.push("original behaviour not back".into());
            }
        } else {
            let page = match place {
                "near" => near_page(idx + 100 + ctx.seed),
                "far" => far_page(idx + 100 + ctx.seed),
                _ => low_page(idx + 100 + ctx.seed),
            };
            let t = match mk_target(page, *rng.pick(&[0usize, 0x33, 0xffc]), 0x77) {
                Some(t) => t,
                None => {
                    out::outcome(idx, &class, Verdict::Inconclusive, "skip:target-unmappable", &J::new());
                    continue;
                }
            };
            let mut inj = ip::lib(InjectorPP::new);
            ip::lib(|| inj.when_called(fp(t.addr, SIG_BOOL)).will_return_boolean(value));
            for _ in 0..per {
                let inp = random_regs(&mut rng);
                let (o, _s, e) = unsafe { probed_call(t.addr, &inp, &Regs::zero()) };
                files += 1;
                n_done += 1;
                let call_rsp = unsafe { saved_rsp() } - 48;
                if e != 0 {
                    bad.push("the assembly fake was entered".into());
                }
                if (o.rax & 0xff) != value as u64 {
                    bad.push(format!("al = {:#x}, wanted {}", o.rax & 0xff, value as u64));
                }
                bad.extend(check_return(&inp, &o, call_rsp));
                for i in 0..4 {
                    cmp(&format!("stack_arg{}'", i), o.stack[i], inp.stack[i], &mut bad);
                }
                if !bad.is_empty() {
                    break;
                }
            }
            ip::lib(|| drop(inj));
        }
        let d = J::new().n("calls", n_done).arr_s("mismatches", &bad);
        if bad.is_empty() {
            out::outcome(idx, &class, Verdict::Held, "", &d);
        } else {
            let first = bad[0].split(|c| c == ':' || c == '=').next().unwrap_or("").trim().to_string();
            out::outcome(idx, &class, Verdict::Violated, &format!("forced-boolean-stub:{}", first.replace(' ', "-")), &d);
        }
    }
    out::summary(&J::new().n("probed_calls", files));
}
