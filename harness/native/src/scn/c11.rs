//! C11 — the trampoline is placed within reach or installation fails cleanly.
//! Inputs: target position x neighbourhood layout; fault sequences: hinted mmaps made to fail (M1).
use super::util::*;
use crate::arena::*;
use crate::interpose as ip;
use crate::out::{self, Verdict, J};
use crate::panicobs;
use crate::rng::Rng;
use crate::x86;
use crate::Ctx;
use injectorpp::interface::injector::*;

#[derive(Clone, Copy, Debug, PartialEq)]
enum Layout {
    Empty,
    Full,
    HoleFirst,
    HoleLast,
    HoleBelowWindow,
    HoleAboveWindow,
    HoleAt(i64), // pages relative to the target's page
    TwoHoles(i64, i64),
}
#[derive(Clone, Copy, Debug, PartialEq)]
enum Faults {
    None,
    FirstN(i64),
    Random(u32),
    All,
    AllEagain,
    FirstNEagain(i64),
    MprotectFails,
}
#[derive(Clone, Debug)]
struct Case {
    base: usize,
    pgoff: usize,
    layout: Layout,
    faults: Faults,
    region: &'static str,
}

fn gen(ctx: &Ctx) -> Vec<Case> {
    let mut rng = Rng::new(ctx.seed ^ 0xC11);
    let regions: Vec<(&'static str, usize)> = vec![
        ("lowest", lowest_mappable()),
        ("low-1M", 0x10_0000),
        ("64M", 0x400_0000),
        ("just-below-128M", 0x7FF_0000),
        ("just-above-128M", 0x801_0000),
        ("mid", 0x5600_0000_0000),
        ("lib-like", 0x7e80_0000_0000),
        ("top", 0x7fff_e800_0000),
    ];
    let mut v = Vec::new();
    let layouts = [Layout::Empty, Layout::Full, Layout::HoleFirst, Layout::HoleLast, Layout::HoleBelowWindow, Layout::HoleAboveWindow];
    for (ri, &(name, base)) in regions.iter().enumerate() {
        for (li, &l) in layouts.iter().enumerate() {
            // both a page-aligned and an unaligned target for the boundary layouts
            for &pgoff in &[0usize, 0x7c3] {
                if !ctx.thorough && (ri + li) % 2 == 1 && pgoff != 0 && !matches!(l, Layout::HoleLast | Layout::HoleFirst) {
                    continue;
                }
                v.push(Case { base, pgoff, layout: l, faults: Faults::None, region: name });
            }
        }
        // fault plans on an empty neighbourhood and with a single hole
        for &f in &[Faults::FirstN(1), Faults::FirstN(7), Faults::Random(128), Faults::All, Faults::AllEagain, Faults::FirstNEagain(5), Faults::MprotectFails] {
            v.push(Case { base, pgoff: 0x100, layout: Layout::Empty, faults: f, region: name });
        }
        v.push(Case { base, pgoff: 0x100, layout: Layout::HoleAt(rng.range(-32000, 32000)), faults: Faults::FirstN(3), region: name });
    }
    let extra = if ctx.n > 0 { ctx.n } else if ctx.thorough { 12000 } else { 40 };
    for _ in 0..extra {
        let &(name, base) = rng.pick(&regions);
        let l = match rng.below(6) {
            0 => Layout::HoleFirst,
            1 => Layout::HoleLast,
            2 => Layout::TwoHoles(rng.range(-32768, 32768), rng.range(-32768, 32768)),
            3 => Layout::HoleAt(*rng.pick(&[-32769, -32768, -32767, 32767, 32768, 32769, -1, 2])),
            _ => Layout::HoleAt(rng.range(-32768, 32768)),
        };
        let f = match rng.below(8) {
            0 => Faults::FirstN(rng.range(1, 2000)),
            1 => Faults::Random(rng.range(1, 255) as u32),
            _ => Faults::None,
        };
        v.push(Case { base: base + (rng.below(32) as usize) * 0x20_0000, pgoff: if rng.chance(1, 2) { 0 } else { rng.below(PAGE as u64 - 8) as usize }, layout: l, faults: f, region: name });
    }
    v
}

fn class_of(c: &Case) -> String {
    let l = match c.layout {
        Layout::Empty => "empty".to_string(),
        Layout::Full => "full".to_string(),
        Layout::HoleFirst => "hole-first".to_string(),
        Layout::HoleLast => "hole-last".to_string(),
        Layout::HoleBelowWindow => "hole-just-below-window".to_string(),
        Layout::HoleAboveWindow => "hole-just-above-window".to_string(),
        Layout::HoleAt(o) => format!("hole-at-{}", if o.abs() >= 32767 { "edge" } else if o < 0 { "below" } else { "above" }),
        Layout::TwoHoles(..) => "two-holes".to_string(),
    };
    let f = match c.faults {
        Faults::None => "nofault",
        Faults::FirstN(_) => "first-n-mmaps-fail",
        Faults::Random(_) => "random-mmaps-fail",
        Faults::All => "all-mmaps-fail",
        Faults::AllEagain => "all-mmaps-fail-with-EAGAIN",
        Faults::FirstNEagain(_) => "first-n-mmaps-fail-with-EAGAIN",
        Faults::MprotectFails => "mprotect-fails",
    };
    format!("{}/{}/{}/{}", c.region, if c.pgoff == 0 { "aligned" } else { "unaligned" }, l, f)
}

pub static JUDGE_RELEASE: std::sync::atomic::AtomicBool = std::sync::atomic::AtomicBool::new(false);

pub fn run(ctx: &Ctx) {
    JUDGE_RELEASE.store(ctx.get_u("judge_release", 0) == 1, std::sync::atomic::Ordering::SeqCst);
    let cases = gen(ctx);
    let floor = hint_floor();
    let lowest = lowest_mappable();
    let mut attempts: Vec<u64> = Vec::new();
    let mut rejected_total = 0u64;
    let mut outcomes: std::collections::BTreeMap<String, u64> = std::collections::BTreeMap::new();
    let mut feasible_but_refused = 0u64;
    for (idx, c) in cases.iter().enumerate() {
        let idx = idx as u64;
        if !ctx.mine(idx) {
            continue;
        }
        let class = class_of(c);
        out::intent(idx, &class, &J::new().s("case", &format!("{:?}", c)).s("crash_sig", &format!("{:?}/{:?}", c.layout, c.faults).split('(').next().unwrap_or("").to_string()));
        let (v, sig, d) = one(idx, c, floor, lowest, &mut attempts, &mut rejected_total, &mut outcomes, &mut feasible_but_refused);
        out::outcome(idx, &class, v, &sig, &d);
    }
    attempts.sort();
    let med = attempts.get(attempts.len() / 2).cloned().unwrap_or(0);
    let oc = outcomes.iter().fold(J::new(), |j, (k, v)| j.n(k, *v));
    out::summary(
        &J::new()
            .n("cases_total", cases.len())
            .n("installs_observed", attempts.len())
            .n("mmap_attempts_min", attempts.first().cloned().unwrap_or(0))
            .n("mmap_attempts_median", med)
            .n("mmap_attempts_max", attempts.last().cloned().unwrap_or(0))
            .n("rejected_placements_given_back", rejected_total)
            .n("feasible_but_refused", feasible_but_refused)
            .x("hint_floor", floor)
            .o("outcomes", oc)
            .o("counters", ip::counters_json()),
    );
}

fn one(idx: u64, c: &Case, floor: usize, lowest: usize, attempts: &mut Vec<u64>, rejected_total: &mut u64, outcomes: &mut std::collections::BTreeMap<String, u64>, feasible_but_refused: &mut u64) -> (Verdict, String, J) {
    let orig_id = 0x5100_0000u32 | (idx as u32 & 0xFFFFF);
    let fake_id = 0x6100_0000u32 | (idx as u32 & 0xFFFFF);
    let mut page = c.base;
    let mut t = None;
    for _ in 0..8 {
        if crate::maps::is_free(page, 2 * PAGE) {
            t = SynthTarget::new(page, c.pgoff, orig_id, RX);
            if t.is_some() {
                break;
            }
        }
        page += 32 * PAGE;
    }
    let t = match t {
        Some(t) => t,
        None => return (Verdict::Inconclusive, "skip:target-unmappable".into(), J::new().x("page", page)),
    };
    // a fake far away from everything (so that it never sits in the window)
    let f = match SynthFake::new(0x6800_0000_0000 + (idx as usize % 4096) * 0x3000 + 0x20, fake_id) {
        Some(f) => f,
        None => return (Verdict::Inconclusive, "skip:fake-unmappable".into(), J::new()),
    };
    let first = page_ceil(t.addr.saturating_sub(RANGE)).max(floor);
    let last = page_floor(t.addr + RANGE).min(0x7fff_ffff_e000);
    let tp = page_floor(t.addr);
    let rel = |o: i64| -> Option<usize> {
        let v = tp as i64 + o * PAGE as i64;
        if v < lowest as i64 || v as usize > 0x7fff_ffff_e000 {
            None
        } else {
            Some(v as usize)
        }
    };
    let holes: Vec<usize> = match c.layout {
        Layout::Empty | Layout::Full => vec![],
        Layout::HoleFirst => vec![first],
        Layout::HoleLast => vec![last],
        Layout::HoleBelowWindow => match first.checked_sub(PAGE) {
            Some(a) if a >= lowest && t.addr.saturating_sub(RANGE) > floor => vec![a],
            _ => return (Verdict::Inconclusive, "skip:no-page-below-window".into(), J::new()),
        },
        Layout::HoleAboveWindow => vec![last + PAGE],
        Layout::HoleAt(o) => match rel(o) {
            Some(a) => vec![a],
            None => return (Verdict::Inconclusive, "skip:hole-unmappable".into(), J::new()),
        },
        Layout::TwoHoles(a, b) => match (rel(a), rel(b)) {
            (Some(x), Some(y)) => vec![x, y],
            _ => return (Verdict::Inconclusive, "skip:hole-unmappable".into(), J::new()),
        },
    };
    for &h in &holes {
        if !crate::maps::is_free(h, PAGE) {
            return (Verdict::Inconclusive, "skip:hole-occupied".into(), J::new().x("hole", h));
        }
    }
    let in_reach = |a: usize| a.abs_diff(t.addr) <= RANGE;
    let feasible_holes: Vec<usize> = holes.iter().cloned().filter(|&h| in_reach(h) && h >= floor).collect();
    let resv = if c.layout != Layout::Empty {
        let lo = t.addr.saturating_sub(RANGE + 64 * PAGE).max(lowest);
        let hi = (t.addr + RANGE + 64 * PAGE).min(0x7fff_ffff_f000);
        let hs: Vec<(usize, usize)> = holes.iter().map(|&h| (h, h + PAGE)).collect();
        let r = Reservation::reserve(lo, hi, &hs);
        // the reservation must really cover the window, otherwise the expectation is unfounded
        let free_left: usize = crate::maps::gaps(first, last + PAGE).iter().map(|(a, b)| b - a).sum();
        if free_left != hs.iter().filter(|(a, _)| *a >= first && *a <= last).count() * PAGE {
            return (Verdict::Inconclusive, "skip:could-not-shape-neighbourhood".into(), J::new().n("free_bytes_left", free_left));
        }
        Some(r)
    } else {
        None
    };
    match c.faults {
        Faults::None => {}
        Faults::FirstN(n) => ip::arm_fail_range(ip::K_MMAP_EXEC, 0, n),
        Faults::Random(p) => ip::arm_fail_random(ip::K_MMAP_EXEC, p, idx ^ 0xFA17),
        Faults::All => ip::arm_fail_range(ip::K_MMAP_EXEC, 0, i64::MAX),
        Faults::AllEagain => {
            ip::FAIL_ERRNO.store(libc::EAGAIN as i64, std::sync::atomic::Ordering::SeqCst);
            ip::arm_fail_range(ip::K_MMAP_EXEC, 0, i64::MAX)
        }
        Faults::FirstNEagain(n) => {
            ip::FAIL_ERRNO.store(libc::EAGAIN as i64, std::sync::atomic::Ordering::SeqCst);
            ip::arm_fail_range(ip::K_MMAP_EXEC, 0, n)
        }
        Faults::MprotectFails => ip::arm_fail_range(ip::K_MPROTECT, 0, i64::MAX),
    }
    // bounded progress: the window has 65 537 pages; a search that makes more than 16 x that many attempts
    // for one installation does not terminate (the interposer then writes this outcome and ends the child)
    ip::arm_attempt_cap(16 * 65_537, &J::new().s("t", "outcome").n("i", idx).s("class", &class_of(c)).s("verdict", "violated").s("sig", "placement-search-does-not-terminate").raw("detail", &J::new().s("case", &format!("{:?}", c)).done()).done());
    let led0 = ip::ledger_snapshot();
    let exec0 = ip::N_MMAP_EXEC.load(std::sync::atomic::Ordering::SeqCst);
    let ok0 = ip::N_MMAP_EXEC_OK.load(std::sync::atomic::Ordering::SeqCst);
    let anomalies0 = ip::A_FOREIGN_UNMAP.load(std::sync::atomic::Ordering::SeqCst) + ip::A_LEN_MISMATCH.load(std::sync::atomic::Ordering::SeqCst);
    let maps_before: Vec<(usize, usize)> = crate::maps::parse().iter().filter(|m| m.x()).map(|m| (m.start, m.end)).collect();
    let (res, msgs) = panicobs::observe(|| {
        let mut inj = ip::lib(InjectorPP::new);
        ip::lib(|| inj.when_called(fp(t.addr, SIG_I32)).will_execute_raw(fp(f.addr, SIG_I32)));
        inj
    });
    ip::disarm_all();
    ip::disarm_attempt_cap();
    ip::FAIL_ERRNO.store(libc::ENOMEM as i64, std::sync::atomic::Ordering::SeqCst);
    let tried = ip::N_MMAP_EXEC.load(std::sync::atomic::Ordering::SeqCst) - exec0;
    let got = ip::N_MMAP_EXEC_OK.load(std::sync::atomic::Ordering::SeqCst) - ok0;
    attempts.push(tried);
    let kept = new_lib_mappings(&led0);
    *rejected_total += got.saturating_sub(kept.len() as u64);
    let anomalies = ip::A_FOREIGN_UNMAP.load(std::sync::atomic::Ordering::SeqCst) + ip::A_LEN_MISMATCH.load(std::sync::atomic::Ordering::SeqCst) - anomalies0;
    let mut d = J::new()
        .x("target", t.addr)
        .s("holes", &format!("{:x?}", holes))
        .x("window_first", first)
        .x("window_last", last)
        .n("mmap_attempts", tried)
        .n("mmap_successes", got)
        .s("kept", &format!("{:x?}", kept))
        .n("reserved_mb", resv.as_ref().map(|r| r.bytes() >> 20).unwrap_or(0));
    if anomalies != 0 {
        return (Verdict::Violated, "give-back-does-not-match-what-was-mapped".into(), d);
    }
    match res {
        Err(msg) => {
            let class = panicobs::classify(&msg);
            *outcomes.entry(format!("panic:{}", class)).or_insert(0) += 1;
            d = d.s("panic", &msg).n("panics", msgs.len());
            if !feasible_holes.is_empty() && c.faults == Faults::None {
                *feasible_but_refused += 1;
                d = d.b("note_feasible_but_refused", true);
            }
            if !t.intact() {
                return (Verdict::Violated, "failed-install-left-target-modified".into(), d);
            }
            if t.call() != orig_id as i32 {
                return (Verdict::Violated, "failed-install-changed-behaviour".into(), d);
            }
            // a trampoline that was already placed when a later step (mprotect) failed is not a
            // "placement rejected as out of range": the property does not speak about it, so it is
            // reported as a note only
            let placement_failure = c.faults != Faults::MprotectFails;
            if !kept.is_empty() && !placement_failure {
                d = d.b("note_trampoline_left_mapped_after_non_placement_failure", true);
                return (Verdict::Held, String::new(), d);
            }
            if !kept.is_empty() {
                return (Verdict::Violated, "failed-install-left-a-mapping".into(), d);
            }
            drop(resv);
            let maps_after: Vec<(usize, usize)> = crate::maps::parse().iter().filter(|m| m.x()).map(|m| (m.start, m.end)).collect();
            if maps_after != maps_before {
                return (Verdict::Violated, "failed-install-changed-the-set-of-executable-mappings".into(), d);
            }
            (Verdict::Held, String::new(), d)
        }
        Ok(inj) => {
            *outcomes.entry("installed".into()).or_insert(0) += 1;
            if kept.len() != 1 {
                return (Verdict::Violated, format!("install-kept-{}-mappings", kept.len()), d);
            }
            let tramp = kept[0].0;
            d = d.x("trampoline", tramp).n("displacement", tramp as i64 - t.addr as i64);
            if !in_reach(tramp) {
                return (Verdict::Violated, "trampoline-out-of-reach".into(), d);
            }
            if c.layout != Layout::Empty && !holes.contains(&tramp) {
                // everything else was reserved: where did it get that page from?
                return (Verdict::Inconclusive, "skip:trampoline-outside-the-holes-we-left".into(), d);
            }
            let reader = live_reader();
            let w = x86::follow(t.addr, f.addr, &reader);
            let via_tramp = w.path.iter().any(|(a, _)| *a >= tramp && *a < tramp + PAGE);
            d = d.s("path", &format!("{:x?}", w.path));
            let got = t.call();
            drop(resv);
            let r = panicobs::observe(|| ip::lib(|| drop(inj)));
            if got != fake_id as i32 {
                return (Verdict::Violated, "installed-but-call-did-not-reach-fake".into(), d.n("got", got));
            }
            match w.end {
                x86::End::Landed if via_tramp => {}
                x86::End::Unknown { .. } => {}
                _ => return (Verdict::Violated, "entry-does-not-decode-to-the-new-mapping".into(), d),
            }
            // restoration and release at scope exit belong to C02 / C12: recorded here, not judged
            if r.0.is_err() || !t.intact() {
                d = d.b("note_not_restored_after_drop", true);
            }
            if !new_lib_mappings(&led0).is_empty() {
                d = d.b("note_mapping_left_after_drop", true);
                if JUDGE_RELEASE.load(std::sync::atomic::Ordering::SeqCst) {
                    // run on behalf of C12 (shaped neighbourhoods, trampolines at the extreme offsets)
                    return (Verdict::Violated, "c12:trampoline-left-mapped-after-the-injector-went-away".into(), d);
                }
            }
            (Verdict::Held, String::new(), d)
        }
    }
}
