#![allow(dead_code)]
use crate::Ctx;

pub mod c01;
pub mod c04;
pub mod c05;
pub mod c06;
pub mod c11;
pub mod c13;
pub mod c14;
pub mod hist;
pub mod pool;
pub mod sigs;
pub mod util;

pub fn run(ctx: &Ctx) {
    match ctx.scenario.as_str() {
        "selftest" => util::selftest(ctx),
        "c01" => c01::run(ctx),
        "c04" => c04::run(ctx),
        "c05" => c05::run(ctx),
        "c06" => c06::run_c06(ctx),
        "c07" => c06::run_c07(ctx),
        "c11" => c11::run(ctx),
        "c13" => c13::run_c13(ctx),
        "c14" => c14::run(ctx),
        "c10stub" => c13::run_c10_stub(ctx),
        "hist" => hist::run(ctx),
        "c09" => sigs::run_c09(ctx),
        "c10gate" => sigs::run_c10_gate(ctx),
        other => {
            eprintln!("HARNESS-ERROR unknown scenario {other}");
            std::process::exit(2);
        }
    }
}
