//! History workload shared by C02 (restore), C03 (nothing else touched), C12 (mapping ledger) and
//! C17 (flush coverage): seeded random install histories over the target pool, hundreds of
//! consecutive injector lifetimes per process, each monitor switched on by `--mon`.
use super::pool::*;
use super::util::*;
use crate::arena::*;
use crate::interpose as ip;
use crate::maps;
use crate::out::{self, Verdict, J};
use crate::panicobs;
use crate::rng::{hash64, Rng};
use crate::Ctx;
use injectorpp::interface::injector::*;
use std::collections::{BTreeMap, BTreeSet, HashMap};
use std::sync::atomic::Ordering;

#[derive(Clone, Copy, Debug, PartialEq)]
enum Exit {
    Normal,
    UserPanic,
    /// a times-fake is deliberately left under-called: verification panics inside drop
    UnderCall,
    /// a times-fake is called once more than its budget: the fake panics at the call
    OverCall,
}

#[derive(Clone, Debug)]
struct Step {
    target: usize,
    kind: Kind,
    variant: usize,
    budget: usize,
}

#[derive(Clone, Debug)]
struct Plan {
    steps: Vec<Step>,
    exit: Exit,
    /// position (number of installs done) at which a user panic is raised, for Exit::UserPanic
    panic_at: usize,
}

fn gen_plan(rng: &mut Rng, pool: &Pool) -> Plan {
    // mostly short histories; one in ~25 is long (more guards than small-vector / small-sort thresholds)
    let n = *rng.pick(&[0usize, 1, 1, 2, 2, 3, 3, 4, 5, 6, 8, 12, 0, 1, 2, 3, 4, 5, 6, 8, 12, 2, 3, 40, 72]);
    // repetition: with probability 1/2 draw targets from a small subset so that the same target is
    // installed twice, three, five times
    let subset: Vec<usize> = if rng.chance(1, 2) {
        let k = 1 + rng.below(3) as usize;
        (0..k).map(|_| rng.below(pool.targets.len() as u64) as usize).collect()
    } else {
        Vec::new()
    };
    let exit = match rng.below(10) {
        0 | 1 => Exit::UserPanic,
        2 => Exit::UnderCall,
        3 => Exit::OverCall,
        _ => Exit::Normal,
    };
    let mut steps = Vec::new();
    for _ in 0..n {
        let target = if !subset.is_empty() && rng.chance(3, 4) { *rng.pick(&subset) } else { rng.below(pool.targets.len() as u64) as usize };
        let kinds = kinds_of(pool.targets[target].fam);
        let mut kind = *rng.pick(kinds);
        if kind == Kind::FakeTimes && !HAVE_CCV {
            // without access to the counter the history cannot arrange the number of calls a counted fake still needs
            kind = Kind::FakeMacro;
        }
        steps.push(Step { target, kind, variant: rng.below(64) as usize, budget: rng.below(4) as usize });
    }
    let panic_at = rng.below(n as u64 + 1) as usize;
    Plan { steps, exit, panic_at }
}

fn class_of(p: &Plan, pool: &Pool) -> String {
    let mut kinds: BTreeSet<Kind> = BTreeSet::new();
    let mut per: HashMap<usize, usize> = HashMap::new();
    let mut fams: BTreeSet<String> = BTreeSet::new();
    for s in &p.steps {
        kinds.insert(s.kind);
        *per.entry(s.target).or_insert(0) += 1;
        let t = &pool.targets[s.target];
        fams.insert(if t.synthetic { "synth".to_string() } else { format!("{:?}", t.fam) });
    }
    let maxrep = per.values().cloned().max().unwrap_or(0);
    format!("kinds={:?}/maxrep={}/exit={:?}/targets={}{}", kinds, maxrep.min(5), p.exit, fams.len().min(4), if p.steps.len() > 32 { "/long" } else { "" })
}

struct Mons {
    c02: bool,
    c03: bool,
    c12: bool,
    c17: bool,
}

struct World {
    pool: Pool,
    images: Vec<Vec<u8>>,
    arena_image: Vec<u8>,
    base_snap: Option<maps::Snapshot>,
    base_exec_anon: BTreeSet<usize>,
    canaries: Vec<(Arena, u8)>,
    // observations
    installs_by_kind: BTreeMap<String, u64>,
    rep_hist: BTreeMap<usize, u64>,
    exits: BTreeMap<String, u64>,
    calls_checked: u64,
    neighbours_called: u64,
    bytes_compared: u64,
    diff_entry: u64,
    diff_newmap: u64,
    diff_other: u64,
    snapshots: u64,
    flush_events: u64,
    flush_checked_bytes: u64,
    api_calls_flush_checked: u64,
    ledger_checks: u64,
    maps_checks: u64,
    lifetimes: u64,
    slot_lens: BTreeSet<usize>,
    under_valgrind: bool,
    reuse_canary: Option<(Arena, u8)>,
    reuse_canaries_checked: u64,
    foreign_pages: Vec<(Arena, u8)>,
    foreign_pages_checked: u64,
    refused_attempts: u64,
    selffake_trials: u64,
    munmap_refused_exits: u64,
    contended_exits: u64,
    live_trampoline_bytes_seen_changing: u64,
    mappings_per_install: BTreeMap<usize, u64>,
    /// start addresses of every function the harness knows (targets and never-named neighbours), sorted
    starts: Vec<usize>,
}

/// end of the entry slot of the function at `addr`: 16 bytes, or less where the next function the harness knows
/// starts earlier (its bytes are that function's, not part of this one's slot)
fn slot_end(starts: &[usize], addr: usize) -> usize {
    match starts.iter().find(|s| **s > addr) {
        Some(n) if *n < addr + 16 => *n,
        _ => addr + 16,
    }
}

fn exec_anon_pages() -> BTreeSet<usize> {
    let mut s = BTreeSet::new();
    for m in maps::parse() {
        if m.x() && m.name.is_empty() {
            let mut p = m.start;
            while p < m.end {
                s.insert(p);
                p += PAGE;
            }
        }
    }
    s
}

pub fn run(ctx: &Ctx) {
    let mon = ctx.get("mon").unwrap_or("c02").to_string();
    let mons = Mons { c02: mon.contains("c02"), c03: mon.contains("c03"), c12: mon.contains("c12"), c17: mon.contains("c17") };
    let batch = ctx.get_u("batch", 1);
    let ncases = if ctx.n > 0 { ctx.n } else { 200 };
    let pool = build_pool_full(ctx.seed, ctx.get_u("nosynth", 0) == 1, mons.c02 && !mons.c03);
    let images: Vec<Vec<u8>> = pool.targets.iter().map(|t| img(t.addr)).collect();
    let arena_image = bytes_at(pool.synth.arena.base, pool.synth.arena.len);
    // self-check of the pool before anything is patched
    for (i, t) in pool.targets.iter().enumerate() {
        let v = (t.call)();
        if v != t.orig || images[i].len() < 5 {
            eprintln!("HARNESS-ERROR pool self-check failed for {} got {} want {}", t.name, v, t.orig);
            std::process::exit(2);
        }
    }
    // canaries next to where trampolines are likely to land (C12): the page after the first free
    // page of the search window of a few representative targets
    let mut canaries = Vec::new();
    if mons.c12 {
        let mut seen = BTreeSet::new();
        for t in pool.targets.iter() {
            let first = page_ceil(t.addr.saturating_sub(RANGE)).max(PAGE);
            if let Some(g) = maps::gaps(first, first + 64 * PAGE).first() {
                for k in [1usize, 3] {
                    let a = g.0 + k * PAGE;
                    if seen.insert(a) && a + PAGE <= g.1 {
                        if let Some(ar) = Arena::map_at(a, PAGE, RW) {
                            let pat = (hash64(a as u64) & 0xff) as u8 | 1;
                            ar.fill(pat);
                            canaries.push((ar, pat));
                        }
                    }
                }
            }
        }
    }
    let mut w = World {
        pool,
        images,
        arena_image,
        base_snap: None,
        base_exec_anon: BTreeSet::new(),
        canaries,
        installs_by_kind: BTreeMap::new(),
        rep_hist: BTreeMap::new(),
        exits: BTreeMap::new(),
        calls_checked: 0,
        neighbours_called: 0,
        bytes_compared: 0,
        diff_entry: 0,
        diff_newmap: 0,
        diff_other: 0,
        snapshots: 0,
        flush_events: 0,
        flush_checked_bytes: 0,
        api_calls_flush_checked: 0,
        ledger_checks: 0,
        maps_checks: 0,
        lifetimes: 0,
        slot_lens: BTreeSet::new(),
        under_valgrind: ctx.get_u("valgrind", 0) == 1,
        reuse_canary: None,
        reuse_canaries_checked: 0,
        foreign_pages: Vec::new(),
        foreign_pages_checked: 0,
        refused_attempts: 0,
        selffake_trials: 0,
        munmap_refused_exits: 0,
        contended_exits: 0,
        live_trampoline_bytes_seen_changing: 0,
        mappings_per_install: BTreeMap::new(),
        starts: Vec::new(),
    };
    w.starts = w.pool.targets.iter().map(|t| t.addr).chain(w.pool.neighbours.iter().map(|n| n.0)).chain(w.pool.synth.slots.iter().map(|s| s.0)).collect();
    w.starts.sort();
    w.starts.dedup();
    // warm-up lifetime so that lazily created process state (thread-local storage, allocator arenas)
    // exists before the baselines are taken
    // It also validates the pool: the bytes at every target's recorded address must change when a
    // fake is installed there and come back (otherwise the harness would watch the wrong bytes).
    let warm_idx = 1_000_000_000 + ctx.shard;
    let do_warm = ctx.get_u("selfcheck", 1) == 1 && ctx.from == 0 && ctx.only.is_none();
    if do_warm {
        // the warm-up is itself a case: every target is faked once on its own and restored; a crash
        // here (e.g. a patch written past the end of a mapping) is attributed to it by the parent
        out::intent(warm_idx, "warmup/each-target-once", &J::new().s("crash_sig", "warmup:each-target-faked-once-and-restored"));
        let mut unpatched: Vec<String> = Vec::new();
        for i in 0..w.pool.targets.len() {
            let t = &w.pool.targets[i];
            let kind = kinds_of(t.fam)[0];
            let snap0 = if mons.c03 { Some(maps::snapshot()) } else { None };
            let led0 = ip::ledger_snapshot();
            let mut inj = ip::lib(InjectorPP::new);
            ip::lib(|| install(&mut inj, t, kind, 0, 0));
            let changed = img_differs(t.addr, &w.images[i]);
            if let Some(s0) = &snap0 {
                // C03 on a single install: every changed byte lies in the named function's 16-byte slot
                let s1 = maps::snapshot();
                let newm = new_lib_mappings(&led0);
                let d = maps::diff(s0, &s1);
                for &(a, _o, _n) in &d.changed {
                    if !(a >= t.addr && a < slot_end(&w.starts, t.addr)) && !newm.iter().any(|(m0, l)| a >= *m0 && a < m0 + l) {
                        out::outcome(warm_idx, "warmup/each-target-once", Verdict::Violated, "c03:byte-outside-entry-slot-changed", &J::new().x("addr", a).x("named_function", t.addr).s("target", &t.name).s("mapping", &s1.name_of(a)).s("during", "single install in warm-up"));
                        ip::lib(|| drop(inj));
                        std::process::exit(75);
                    }
                }
            }
            ip::lib(|| drop(inj));
            if let Some(s0) = &snap0 {
                // ... and after the removal: whatever the entry slot looks like (C02's business), nothing else differs
                let s2 = maps::snapshot();
                let d = maps::diff(s0, &s2);
                if let Some(&(a, _o, _n)) = d.changed.iter().find(|(a, _, _)| !(*a >= t.addr && *a < slot_end(&w.starts, t.addr))) {
                    out::outcome(warm_idx, "warmup/each-target-once", Verdict::Violated, "c03:byte-outside-entry-slot-changed", &J::new().x("addr", a).x("named_function", t.addr).s("target", &t.name).s("mapping", &s2.name_of(a)).s("during", "removal of a single install in warm-up"));
                    std::process::exit(75);
                }
            }
            if !changed {
                // the bytes at the address the harness recorded for this target did not change: either the
                // harness computed the address wrongly or the library patched somewhere else. The monitors
                // that watch this target are then unfounded => the warm-up case is inconclusive.
                unpatched.push(t.name.clone());
            }
            if img_differs(t.addr, &w.images[i]) || (t.call)() != t.orig {
                // restoration is C02's property: the other monitors cannot work on a corrupted pool and say so
                let v = if mons.c02 { Verdict::Violated } else { Verdict::Inconclusive };
                out::outcome(warm_idx, "warmup/each-target-once", v, "warmup:single-install-not-restored", &J::new().s("target", &t.name));
                std::process::exit(75);
            }
        }
        if !unpatched.is_empty() {
            out::outcome(warm_idx, "warmup/each-target-once", Verdict::Inconclusive, "pool-target-not-patched-at-its-recorded-address", &J::new().arr_s("targets", &unpatched));
        } else {
            out::outcome(warm_idx, "warmup/each-target-once", Verdict::Held, "", &J::new().n("targets", w.pool.targets.len()));
        }
    }
    if mons.c03 {
        w.base_snap = Some(maps::snapshot());
    }
    w.base_exec_anon = exec_anon_pages();
    // (C12) the one primitive a user may fake that the release path itself depends on: `munmap`. Faked
    // alone, its own trampoline must still be released (the function is restored before it is needed).
    if mons.c12 && ctx.from == 0 && ctx.only.is_none() && !w.under_valgrind {
        let idx = 1_500_000_000 + ctx.shard;
        out::intent(idx, "special/fake-munmap-itself", &J::new().s("crash_sig", "fake-munmap-itself"));
        static FAKE_MUNMAP_CALLS: std::sync::atomic::AtomicU64 = std::sync::atomic::AtomicU64::new(0);
        unsafe extern "C" fn fake_munmap(_a: *mut libc::c_void, _l: libc::size_t) -> libc::c_int {
            FAKE_MUNMAP_CALLS.fetch_add(1, Ordering::SeqCst);
            0
        }
        let before = exec_anon_pages();
        let mut bad = None;
        for _ in 0..20 {
            let mut inj = ip::lib(InjectorPP::new);
            ip::lib(|| {
                inj.when_called(injectorpp::func!(unsafe{} extern "C" fn (libc::munmap)(*mut libc::c_void, libc::size_t) -> libc::c_int))
                    .will_execute_raw(injectorpp::func!(unsafe{} extern "C" fn (fake_munmap)(*mut libc::c_void, libc::size_t) -> libc::c_int))
            });
            ip::lib(|| drop(inj));
        }
        let after = exec_anon_pages();
        if after != before {
            bad = Some(format!("{} executable anonymous pages left after 20 cycles that fake munmap itself", after.difference(&before).count()));
        }
        match bad {
            None => out::outcome(idx, "special/fake-munmap-itself", Verdict::Held, "", &J::new().n("cycles", 20).n("fake_entered", FAKE_MUNMAP_CALLS.load(Ordering::SeqCst))),
            Some(b) => {
                out::outcome(idx, "special/fake-munmap-itself", Verdict::Violated, "c12:trampoline-of-a-faked-munmap-not-released", &J::new().s("what", &b).n("fake_entered", FAKE_MUNMAP_CALLS.load(Ordering::SeqCst)));
                std::process::exit(75);
            }
        }
    }

    // (C12) a platform with 64 KiB pages: sysconf(_SC_PAGESIZE) answers 65536 to the library; the target lives in a
    // 256 KiB code arena aligned to 64 KiB. 50 cycles of install, re-fake, call, drop: the fakes work and the
    // executable mappings are the same afterwards.
    if mons.c12 && ctx.from == 0 && ctx.only.is_none() && !w.under_valgrind && ctx.shard == 0 {
        let idx = 1_600_000_000;
        out::intent(idx, "special/64KiB-pages", &J::new().s("crash_sig", "64KiB-pages"));
        let want = 0x6200_0000_0000usize;
        let big = if maps::is_free(want - 0x1_0000, 6 * 0x1_0000) { Arena::map_at(want, 4 * 0x1_0000, RWX) } else { None };
        match big {
            None => out::outcome(idx, "special/64KiB-pages", Verdict::Inconclusive, "could-not-map-the-aligned-arena", &J::new()),
            Some(ar) => {
                ar.fill(0xCC);
                let taddr = ar.base + 0x1_0100;
                ar.write(taddr, &code_ret_const(0x64, 16, 0x90));
                let before = exec_anon_pages();
                let img0 = bytes_at(taddr, 16);
                let mut bad: Option<String> = None;
                ip::FAKE_PAGE_SIZE.store(65536, Ordering::SeqCst);
                let r = std::panic::catch_unwind(std::panic::AssertUnwindSafe(|| {
                    for cyc in 0..50 {
                        let mut inj = ip::lib(InjectorPP::new);
                        ip::lib(|| inj.when_called(fp(taddr, SIG_I32)).will_execute_raw(injectorpp::func!(fn (fk1)() -> i32)));
                        let a = unsafe { call0(taddr) };
                        ip::lib(|| inj.when_called(fp(taddr, SIG_I32)).will_execute_raw(injectorpp::func!(fn (fk2)() -> i32)));
                        let b = unsafe { call0(taddr) };
                        ip::lib(|| drop(inj));
                        let c = unsafe { call0(taddr) };
                        if (a, b, c) != (0x7101, 0x7102, 0x64) {
                            return Some(format!("cycle {}: calls returned {:#x}, {:#x}, {:#x}", cyc, a, b, c));
                        }
                    }
                    None
                }));
                ip::FAKE_PAGE_SIZE.store(0, Ordering::SeqCst);
                match r {
                    // a library that refuses to work with such pages says so loudly: nothing to hold against C12
                    Err(p) => out::outcome(idx, "special/64KiB-pages", Verdict::Inconclusive, "library-panicked-with-64KiB-pages", &J::new().s("panic", &panicobs::payload_msg(&p))),
                    Ok(x) => {
                        bad = x;
                        let after = exec_anon_pages();
                        if bad.is_none() && after != before {
                            bad = Some(format!("{} executable anonymous pages appeared, {} vanished over 50 cycles", after.difference(&before).count(), before.difference(&after).count()));
                        }
                        if bad.is_none() && bytes_at(taddr, 16) != img0 {
                            bad = Some("the function's bytes are not back".into());
                        }
                        match bad {
                            None => out::outcome(idx, "special/64KiB-pages", Verdict::Held, "", &J::new().n("cycles", 50)),
                            Some(b) => {
                                out::outcome(idx, "special/64KiB-pages", Verdict::Violated, "c12:mappings-differ-after-cycles-with-64KiB-pages", &J::new().s("what", &b));
                                std::process::exit(75);
                            }
                        }
                    }
                }
                drop(ar);
            }
        }
    }

    // (C03) a second thread keeps executing the untouched neighbour functions (same page as many
    // targets) for the whole run: they must stay executable and original *during* installs and removals
    let stop = std::sync::Arc::new(std::sync::atomic::AtomicBool::new(false));
    let spin_calls = std::sync::Arc::new(std::sync::atomic::AtomicU64::new(0));
    let spin_bad = std::sync::Arc::new(std::sync::atomic::AtomicU64::new(0));
    let spinner = if mons.c03 && !w.pool.neighbours.is_empty() && ctx.get_u("spinner", 1) == 1 {
        let nb = w.pool.neighbours.clone();
        let (stop2, calls2, bad2) = (stop.clone(), spin_calls.clone(), spin_bad.clone());
        Some(std::thread::spawn(move || {
            while !stop2.load(Ordering::Relaxed) {
                for &(a, id) in &nb {
                    if unsafe { call0(a) } as u32 != id {
                        bad2.fetch_add(1, Ordering::SeqCst);
                    }
                }
                calls2.fetch_add(nb.len() as u64, Ordering::Relaxed);
            }
        }))
    } else {
        None
    };
    // (C12) another thread keeps mapping, using and unmapping ordinary memory right where the library looks for
    // trampoline pages first (hints only, never MAP_FIXED): its pages are its own - never replaced, never unmapped
    // by anybody else - however the two threads interleave
    let map_rounds = std::sync::Arc::new(std::sync::atomic::AtomicU64::new(0));
    let map_bad = std::sync::Arc::new(std::sync::atomic::AtomicU64::new(0));
    let mapper = if mons.c12 && !mons.c03 && ctx.get_u("nosynth", 0) == 0 && ctx.get_u("mapper", 1) == 1 {
        let first = (w.pool.synth.arena.base.saturating_sub(0x800_0000)) & !(PAGE - 1);
        let (stop2, rounds2, bad2) = (stop.clone(), map_rounds.clone(), map_bad.clone());
        Some(std::thread::spawn(move || {
            let mut k = 0usize;
            while !stop2.load(Ordering::Relaxed) {
                k += 1;
                let hint = first + (k % 6) * PAGE;
                let p = unsafe { libc::syscall(libc::SYS_mmap, hint, PAGE, libc::PROT_READ | libc::PROT_WRITE, libc::MAP_PRIVATE | libc::MAP_ANONYMOUS, -1i64, 0i64) } as isize;
                if p <= 0 {
                    continue;
                }
                let p = p as usize;
                let pat = 0xA5A5_0000_0000_0000u64 | k as u64;
                unsafe { std::ptr::write_volatile(p as *mut u64, pat) };
                for _ in 0..(k % 200) {
                    std::hint::spin_loop();
                }
                let ok = maps::read_vec(p, 8).map(|b| u64::from_le_bytes(b[..8].try_into().unwrap()) == pat).unwrap_or(false);
                if !ok {
                    bad2.fetch_add(1, Ordering::SeqCst);
                }
                unsafe { libc::syscall(libc::SYS_munmap, p, PAGE) };
                rounds2.fetch_add(1, Ordering::Relaxed);
            }
        }))
    } else {
        None
    };
    let mut regenerated = 0u64;
    let mut decided = 0u64;
    for idx in 0..ncases {
        if !ctx.mine(idx) {
            continue;
        }
        // every so often the code of one synthetic target is re-emitted in place (as a JIT or a code
        // generator would): later lifetimes must restore THAT code, not an older snapshot of the address
        if (mons.c02 || mons.c03) && idx % 7 == 3 {
            let cands: Vec<usize> = w.pool.targets.iter().enumerate().filter(|(_, t)| t.synthetic && t.fam == Fam::I32 && t.addr % 16 == 0 && t.orig >= 0x2000 && t.orig < 0x3_0000 && bytes_at(t.addr, 1) == [0xB8] && bytes_at(t.addr + 5, 1) == [0xC3]).map(|(i, _)| i).collect();
            if !cands.is_empty() {
                let mut r2 = Rng::new(ctx.seed ^ hash64(idx ^ 0x4E6E));
                let ti = *r2.pick(&cands);
                let addr = w.pool.targets[ti].addr;
                let new_id = (w.pool.targets[ti].orig as u32) ^ 0x1_0000;
                w.pool.synth.arena.protect(addr, 8, RWX);
                w.pool.synth.arena.write(addr + 1, &new_id.to_le_bytes());
                w.pool.synth.arena.protect_all(RX);
                w.pool.targets[ti].orig = new_id as i64;
                // the 32-byte images overlap neighbouring slots: refresh all of them
                for k in 0..w.pool.targets.len() {
                    w.images[k] = img(w.pool.targets[k].addr);
                }
                w.arena_image = bytes_at(w.pool.synth.arena.base, w.pool.synth.arena.len);
                if mons.c03 {
                    w.base_snap = Some(maps::snapshot());
                }
                regenerated += 1;
            }
        }
        let mut rng = Rng::new(ctx.seed ^ hash64(idx.wrapping_mul(0x9E37) ^ 0xC02C02));
        let plans: Vec<Plan> = (0..batch).map(|_| gen_plan(&mut rng, &w.pool)).collect();
        let class = if batch == 1 { class_of(&plans[0], &w.pool) } else { format!("batch/{}", class_of(&plans[0], &w.pool)) };
        let desc = J::new().s("plan0", &format!("{:?}", plans[0])).n("batch", batch).s("crash_sig", &format!("history:{}", class));
        out::intent(idx, &class, &desc);
        let mut verdict = Verdict::Held;
        let mut sig = String::new();
        let mut detail = J::new();
        for (j, p) in plans.iter().enumerate() {
            // C12: one lifetime in sixteen runs on a thread of its own that ends right afterwards, with another thread
            // already queueing for the guard when the injector goes away (hand-over under contention)
            let contended = mons.c12 && !mons.c03 && !mons.c02 && !mons.c17 && idx % 16 == 5;
            let (v, s, d) = if contended {
                CONTENDED.store(true, Ordering::SeqCst);
                HOLDER_IN.store(false, Ordering::SeqCst);
                WAITER_ASKING.store(false, Ordering::SeqCst);
                w.contended_exits += 1;
                let r = std::thread::scope(|sc| {
                    let waiter = sc.spawn(|| {
                        let t0 = std::time::Instant::now();
                        while !HOLDER_IN.load(Ordering::SeqCst) && t0.elapsed().as_secs() < 20 {
                            std::hint::spin_loop();
                        }
                        WAITER_ASKING.store(true, Ordering::SeqCst);
                        std::panic::catch_unwind(|| drop(InjectorPP::new())).is_ok()
                    });
                    let h = sc.spawn(|| lifetime(&mut w, &mons, p, &mut rng));
                    let out = h.join();
                    HOLDER_IN.store(true, Ordering::SeqCst);
                    let _ = waiter.join();
                    out
                });
                CONTENDED.store(false, Ordering::SeqCst);
                match r {
                    Ok(x) => x,
                    Err(_) => (Verdict::Violated, "c12:lifetime-thread-died".to_string(), J::new()),
                }
            } else {
                lifetime(&mut w, &mons, p, &mut rng)
            };
            if v != Verdict::Held {
                verdict = v;
                sig = s;
                detail = d.n("batch_index", j).s("plan", &format!("{:?}", p));
                break;
            } else if j == 0 {
                detail = d;
            }
        }
        decided += 1;
        out::outcome(idx, &class, verdict, &sig, &detail);
        if (verdict == Verdict::Violated && !sig.starts_with("c17")) || verdict == Verdict::Inconclusive {
            // state may be corrupt after a restoration failure: leave, the parent restarts after this case
            out::summary(&summary_json(&w, decided));
            std::process::exit(75);
        }
    }
    stop.store(true, Ordering::SeqCst);
    if let Some(h) = spinner {
        let _ = h.join();
    }
    if let Some(h) = mapper {
        let _ = h.join();
    }
    if map_bad.load(Ordering::SeqCst) > 0 {
        out::outcome(2_000_000_100 + ctx.shard, "background-thread/foreign-mappings-in-the-search-window", Verdict::Violated, "c12:foreign-mapping-replaced-or-unmapped-while-its-owner-was-using-it", &J::new().n("bad_rounds", map_bad.load(Ordering::SeqCst)).n("rounds", map_rounds.load(Ordering::SeqCst)));
    }
    let mut sj = summary_json(&w, decided).n("synthetic_targets_regenerated_in_place", regenerated).n("neighbour_calls_by_the_background_thread", spin_calls.load(Ordering::SeqCst)).n("map_use_unmap_rounds_by_the_background_thread_in_the_search_window", map_rounds.load(Ordering::SeqCst));
    if spin_bad.load(Ordering::SeqCst) > 0 {
        out::outcome(2_000_000_000 + ctx.shard, "background-thread/neighbours", Verdict::Violated, "c03:neighbour-function-changed-behaviour-on-another-thread", &J::new().n("bad_calls", spin_bad.load(Ordering::SeqCst)));
        sj = sj.n("background_thread_bad_calls", spin_bad.load(Ordering::SeqCst));
    }
    out::summary(&sj);
}

fn summary_json(w: &World, decided: u64) -> J {
    let mk = |m: &BTreeMap<String, u64>| m.iter().fold(J::new(), |j, (k, v)| j.n(k, *v));
    let rep = w.rep_hist.iter().fold(J::new(), |j, (k, v)| j.n(&format!("lifetimes_with_a_target_installed_{}x", k), *v));
    J::new()
        .n("cases_decided", decided)
        .n("lifetimes", w.lifetimes)
        .n("pool_targets", w.pool.targets.len())
        .n("pool_neighbours", w.pool.neighbours.len())
        .o("installs_by_kind", mk(&w.installs_by_kind))
        .o("repetition", rep)
        .o("exits", mk(&w.exits))
        .n("calls_checked_against_model", w.calls_checked)
        .n("neighbours_called", w.neighbours_called)
        .n("snapshots", w.snapshots)
        .n("bytes_compared", w.bytes_compared)
        .n("diff_bytes_in_entry_slot", w.diff_entry)
        .n("diff_bytes_in_new_mapping", w.diff_newmap)
        .n("diff_bytes_other", w.diff_other)
        .s("slot_lengths_observed", &format!("{:?}", w.slot_lens))
        .n("flush_events_seen", w.flush_events)
        .n("flush_checked_bytes", w.flush_checked_bytes)
        .n("api_calls_flush_checked", w.api_calls_flush_checked)
        .n("ledger_checks", w.ledger_checks)
        .n("maps_page_set_checks", w.maps_checks)
        .n("canaries", w.canaries.len())
        .n("canaries_placed_at_freed_trampoline_addresses_and_checked", w.reuse_canaries_checked)
        .n("refused_installations_inside_histories", w.refused_attempts)
        .n("self_fake_installations_tried", w.selffake_trials)
        .n("scope_exits_with_munmap_refused", w.munmap_refused_exits)
        .n("lifetimes_on_a_short_lived_thread_with_a_waiter_queued_at_scope_exit", w.contended_exits)
        .n("bytes_of_live_trampolines_seen_changing", w.live_trampoline_bytes_seen_changing)
        .s("new_mappings_per_install_histogram", &format!("{:?}", w.mappings_per_install))
        .n("foreign_pages_on_early_freed_trampolines_checked", w.foreign_pages_checked)
        .o("counters", ip::counters_json())
}

/// images of the ranges the flush checker watches: every target's first 32 bytes
fn watch_images(w: &World) -> Vec<Vec<u8>> {
    let mut v: Vec<Vec<u8>> = w.pool.targets.iter().map(|t| img(t.addr)).collect();
    // after the targets: the first 128 bytes of every mapping the library holds right now (its trampolines): a
    // trampoline that is rewritten in place is written code too. Encoded as (address as 8 bytes) ++ image.
    for (a, l) in ip::ledger_snapshot() {
        let mut e = (a as u64).to_le_bytes().to_vec();
        e.extend(maps::read_vec(a, l.min(128)).unwrap_or_default());
        v.push(e);
    }
    v
}

/// C17 oracle for one API call window.
/// `before`/`after`: images of the watched target ranges; `new_maps`: mappings the call created
/// (every non-zero byte of those counts as written); `gone`: mappings the call removed (skipped);
/// `ev`: the M1 events of the window.
fn flush_check(w: &mut World, before: &[Vec<u8>], after: &[Vec<u8>], new_maps: &[(usize, usize)], ev: &[ip::Event]) -> Option<(String, J)> {
    let flushes: Vec<&ip::Event> = ev.iter().filter(|e| e.kind == ip::EV_FLUSH).collect();
    w.flush_events += flushes.len() as u64;
    w.api_calls_flush_checked += 1;
    let mut changed: Vec<(usize, u8)> = Vec::new(); // (addr, final value)
    for (i, t) in w.pool.targets.iter().enumerate() {
        for k in 0..before[i].len().min(after[i].len()) {
            if before[i][k] != after[i][k] {
                changed.push((t.addr + k, after[i][k]));
            }
        }
    }
    // live library mappings that existed before the call and still exist after it
    let nt = w.pool.targets.len();
    for eb in before.iter().skip(nt) {
        if eb.len() < 8 {
            continue;
        }
        let a = u64::from_le_bytes(eb[..8].try_into().unwrap()) as usize;
        if let Some(ea) = after.iter().skip(nt).find(|x| x.len() >= 8 && x[..8] == eb[..8]) {
            for k in 8..eb.len().min(ea.len()) {
                if eb[k] != ea[k] {
                    changed.push((a + k - 8, ea[k]));
                    w.live_trampoline_bytes_seen_changing += 1;
                }
            }
        }
    }
    for &(a, l) in new_maps {
        if let Some(b) = maps::read_vec(a, l.min(PAGE)) {
            for (k, &v) in b.iter().enumerate() {
                if v != 0 {
                    changed.push((a + k, v));
                }
            }
        }
    }
    for &(addr, val) in &changed {
        w.flush_checked_bytes += 1;
        // the last flush covering this byte
        let last = flushes.iter().rev().find(|e| addr >= e.a0 && addr < e.a1);
        match last {
            None => {
                return Some(("c17:written-byte-never-flushed".into(), J::new().x("addr", addr).n("flushes_in_window", flushes.len()).s("ranges", &format!("{:x?}", flushes.iter().map(|e| (e.a0, e.a1)).collect::<Vec<_>>()))));
            }
            Some(e) => {
                let off = addr - e.a0;
                if off < e.datalen as usize && e.data[off] != val {
                    return Some(("c17:byte-written-after-its-last-flush".into(), J::new().x("addr", addr).n("at_flush", e.data[off]).n("final", val)));
                }
            }
        }
    }
    None
}

#[inline(never)]
fn wrong_shape_fake(a: u64, b: u64, c: u64) -> u64 {
    std::hint::black_box(a ^ b ^ c)
}

/// an installation the library has to refuse; true if it was (a panic was raised)
fn refused_attempt(inj: &mut InjectorPP, t: &Target, variant: usize) -> bool {
    std::panic::catch_unwind(std::panic::AssertUnwindSafe(|| match variant % 3 {
        0 => inj.when_called((t.mk)()).will_execute_raw(injectorpp::func!(wrong_shape_fake, fn(u64, u64, u64) -> u64)),
        1 => inj.when_called((t.mk)()).will_execute(injectorpp::fake!(func_type: fn(_a: u8, _b: u8) -> u64, returns: 1)),
        _ => inj.when_called((t.mk)()).will_return_boolean(true),
    }))
    .is_err()
}

#[inline(never)]
fn selffake_victim() -> i32 {
    std::hint::black_box(0x5E1F)
}

static CONTENDED: std::sync::atomic::AtomicBool = std::sync::atomic::AtomicBool::new(false);
static HOLDER_IN: std::sync::atomic::AtomicBool = std::sync::atomic::AtomicBool::new(false);
static WAITER_ASKING: std::sync::atomic::AtomicBool = std::sync::atomic::AtomicBool::new(false);

fn lifetime(w: &mut World, mons: &Mons, p: &Plan, rng: &mut Rng) -> (Verdict, String, J) {
    let _whole = ip::LibScope::enter();
    w.lifetimes += 1;
    let anomalies0 = ip::A_FOREIGN_UNMAP.load(Ordering::SeqCst) + ip::A_LEN_MISMATCH.load(Ordering::SeqCst);
    let ledger0 = ip::ledger_len();
    let mut viol: Option<(String, J)> = None;
    // model: per target, stack of expected values
    let mut model: HashMap<usize, Vec<i64>> = HashMap::new();
    // times fakes: (counter, budget, target, position in that target's stack)
    let mut timed: Vec<(&'static std::sync::atomic::AtomicUsize, usize, usize, usize)> = Vec::new();
    let mut installs_done = 0usize;
    let mut prev_snap: Option<maps::Snapshot> = None;
    if mons.c03 {
        prev_snap = Some(maps::snapshot());
        w.snapshots += 1;
    }
    let mut named: BTreeSet<usize> = BTreeSet::new();
    let mut lib_maps: Vec<(usize, usize)> = Vec::new();

    let body = |w: &mut World, viol: &mut Option<(String, J)>, model: &mut HashMap<usize, Vec<i64>>, timed: &mut Vec<(&'static std::sync::atomic::AtomicUsize, usize, usize, usize)>, installs_done: &mut usize, prev_snap: &mut Option<maps::Snapshot>, named: &mut BTreeSet<usize>, lib_maps: &mut Vec<(usize, usize)>, rng: &mut Rng| -> (InjectorPP, bool) {
        let mut inj = ip::lib(InjectorPP::new);
        if CONTENDED.load(Ordering::SeqCst) {
            HOLDER_IN.store(true, Ordering::SeqCst);
        }
        for (si, s) in p.steps.iter().enumerate() {
            if p.exit == Exit::UserPanic && p.panic_at == si {
                // scope exit by unwinding after `si` installs
                return (inj, true);
            }
            // one step in six is preceded by an installation the library must refuse (wrong signature, boolean
            // forcing of a non-bool function): caught by the test body, the history carries on. It changes
            // nothing: no byte, no mapping kept, the fakes installed so far stay in effect
            if s.variant % 6 == 5 {
                let rt = &w.pool.targets[(s.target + s.variant) % w.pool.targets.len()];
                if matches!(rt.fam, Fam::I32 | Fam::Gen8 | Fam::Gen16 | Fam::Gen32 | Fam::LibcInt | Fam::LibcLong) {
                    let led0 = ip::ledger_len();
                    let img0 = img(rt.addr);
                    let refused = ip::lib(|| refused_attempt(&mut inj, rt, s.variant / 6));
                    w.refused_attempts += 1;
                    if viol.is_none() {
                        if !refused && mons.c02 {
                            // not this property's business whether it is refused, but an accepted installation the
                            // model does not know would make every later verdict meaningless: stop the lifetime
                            *viol = Some(("c02:history-unusable:mismatching-installation-accepted".into(), J::new().s("target", &rt.name)));
                        } else if mons.c12 && ip::ledger_len() != led0 {
                            *viol = Some(("c12:refused-installation-kept-a-mapping".into(), J::new().s("target", &rt.name).n("ledger_before", led0).n("ledger_after", ip::ledger_len())));
                        } else if (mons.c02 || mons.c03) && img_differs(rt.addr, &img0) {
                            *viol = Some((if mons.c02 { "c02:refused-installation-changed-the-function" } else { "c03:refused-installation-changed-bytes" }.into(), J::new().s("target", &rt.name)));
                        }
                    }
                }
            }
            let before = if mons.c17 { Some(watch_images(w)) } else { None };
            let led_before = ip::ledger_snapshot();
            let m0 = ip::mark();
            let t = &w.pool.targets[s.target];
            let inst = ip::lib(|| install(&mut inj, t, s.kind, s.variant, s.budget));
            *installs_done += 1;
            named.insert(s.target);
            *w.installs_by_kind.entry(format!("{:?}", s.kind)).or_insert(0) += 1;
            let st = model.entry(s.target).or_default();
            st.push(inst.expect);
            if let Some((b, c)) = inst.times {
                timed.push((c, b, s.target, st.len() - 1));
            }
            let new_maps = new_lib_mappings(&led_before);
            lib_maps.extend(new_maps.iter().cloned());
            if mons.c17 && viol.is_none() {
                let after = watch_images(w);
                let ev = ip::since(m0).unwrap_or_default();
                if let Some(v) = flush_check(w, before.as_ref().unwrap(), &after, &new_maps, &ev) {
                    *viol = Some((v.0, v.1.s("during", "install").s("target", &w.pool.targets[s.target].name).s("kind", &format!("{:?}", s.kind))));
                }
            }
            if mons.c12 && viol.is_none() {
                w.ledger_checks += 1;
                // how many mappings an installation keeps is the library's business (one page each today; pooled slots
                // or multi-page trampolines would be just as good): what is required is that whatever it has created and
                // not given back is still there, and - at scope exit - that all of it goes
                w.mappings_per_install.entry(new_maps.len()).and_modify(|c| *c += 1).or_insert(1);
                let _ = (ledger0, *installs_done);
            }
            if mons.c03 && viol.is_none() {
                let snap = maps::snapshot();
                w.snapshots += 1;
                let d = maps::diff(prev_snap.as_ref().unwrap(), &snap);
                w.bytes_compared += d.compared as u64;
                let taddr = w.pool.targets[s.target].addr;
                let mut lo = usize::MAX;
                let mut hi = 0usize;
                for &(a, _o, _n) in &d.changed {
                    if a >= taddr && a < slot_end(&w.starts, taddr) {
                        w.diff_entry += 1;
                        lo = lo.min(a);
                        hi = hi.max(a);
                    } else if new_maps.iter().any(|(s0, l)| a >= *s0 && a < s0 + l) {
                        w.diff_newmap += 1;
                    } else {
                        w.diff_other += 1;
                        if viol.is_none() {
                            *viol = Some(("c03:byte-outside-entry-slot-changed".into(), J::new().x("addr", a).x("target", taddr).s("mapping", &snap.name_of(a)).s("during", "install")));
                        }
                    }
                }
                if hi >= lo {
                    w.slot_lens.insert(hi - taddr + 1);
                }
                for pg in &d.appeared {
                    if !new_maps.iter().any(|(s0, l)| *pg >= *s0 && *pg < s0 + page_ceil(*l)) {
                        *viol = Some(("c03:executable-mapping-appeared-that-is-not-the-trampoline".into(), J::new().x("page", *pg)));
                    }
                }
                // a page of a mapping the library itself created earlier in this lifetime may go (that is C12's
                // business); any other executable page vanishing is a stray unmap
                if let Some(pg) = d.vanished.iter().find(|pg| !lib_maps.iter().any(|(m0, l)| **pg >= *m0 && **pg < m0 + page_ceil(*l))) {
                    *viol = Some(("c03:executable-mapping-vanished".into(), J::new().x("page", *pg)));
                }
                // if the library has already given back one of its trampolines while the injector lives, the
                // address is no longer its own: a foreign executable page placed there must survive
                for &(m0, l) in lib_maps.iter() {
                    if w.foreign_pages.iter().all(|(a, _)| a.base != m0) && maps::is_free(m0, page_ceil(l)) {
                        if let Some(ar) = Arena::map_at(m0, PAGE, RWX) {
                            ar.fill(0xC3);
                            ar.protect_all(RX);
                            w.foreign_pages.push((ar, 0xC3));
                        }
                    }
                }
                *prev_snap = Some(snap);
            }
            // --- calls: every faked target answers with its most recent fake; a few others are original
            let faked: Vec<usize> = model.keys().cloned().collect();
            for ti in faked {
                let want = *model[&ti].last().unwrap();
                // do not exhaust budgets of times-fakes that are on top
                let top_pos = model[&ti].len() - 1;
                if let Some(tf) = timed.iter().find(|x| x.2 == ti && x.3 == top_pos) {
                    if tf.0.load(Ordering::SeqCst) >= tf.1 {
                        continue;
                    }
                }
                let got = (w.pool.targets[ti].call)();
                w.calls_checked += 1;
                if got != want && viol.is_none() && mons.c02 {
                    *viol = Some(("c02:most-recent-install-not-in-effect".into(), J::new().s("target", &w.pool.targets[ti].name).n("got", got).n("want", want).n("stack_depth", model[&ti].len())));
                }
            }
            for _ in 0..3 {
                let ti = rng.below(w.pool.targets.len() as u64) as usize;
                if !model.contains_key(&ti) {
                    let got = (w.pool.targets[ti].call)();
                    w.calls_checked += 1;
                    if got != w.pool.targets[ti].orig && viol.is_none() && mons.c03 {
                        *viol = Some(("c03:unnamed-function-changed-behaviour".into(), J::new().s("target", &w.pool.targets[ti].name).n("got", got)));
                    }
                }
            }
            if !w.pool.neighbours.is_empty() {
                for _ in 0..2 {
                    let (a, id) = *rng.pick(&w.pool.neighbours);
                    let got = unsafe { call0(a) };
                    w.neighbours_called += 1;
                    if got as u32 != id && viol.is_none() && mons.c03 {
                        *viol = Some(("c03:neighbour-function-changed-behaviour".into(), J::new().x("addr", a).n("got", got)));
                    }
                }
            }
        }
        // C12: an installation whose fake is the faked function itself, on a function that is never called. The
        // library may accept it (then it is one more installation whose trampoline must go at scope exit) or refuse
        // it (then nothing may stay mapped) - either way the ledger says which
        if mons.c12 && viol.is_none() && p.steps.len() % 8 == 3 {
            let led0 = ip::ledger_len();
            let r = std::panic::catch_unwind(std::panic::AssertUnwindSafe(|| ip::lib(|| inj.when_called(injectorpp::func!(fn (selffake_victim)() -> i32)).will_execute_raw(injectorpp::func!(fn (selffake_victim)() -> i32)))));
            w.selffake_trials += 1;
            let grown = ip::ledger_len() as i64 - led0 as i64;
            if r.is_err() && grown != 0 {
                *viol = Some(("c12:refused-installation-kept-a-mapping".into(), J::new().s("installation", "a function faked with itself").n("mappings_kept", grown)));
            }
        }
        if p.exit == Exit::UserPanic {
            return (inj, true);
        }
        // arrange the call counts of the times-fakes that are still on top of their stack
        for tf in timed.iter() {
            let on_top = model[&tf.2].len() - 1 == tf.3;
            if !on_top {
                continue;
            }
            let made = tf.0.load(Ordering::SeqCst);
            let mut want_calls = tf.1.saturating_sub(made);
            if p.exit == Exit::UnderCall && want_calls > 0 {
                want_calls -= 1;
            }
            for _ in 0..want_calls {
                let _ = (w.pool.targets[tf.2].call)();
            }
            if p.exit == Exit::OverCall {
                let _ = (w.pool.targets[tf.2].call)(); // panics inside the fake
            }
        }
        (inj, false)
    };

    let before_drop_marks = std::cell::Cell::new(0u64);
    let (res, msgs) = panicobs::observe(|| {
        let (inj, user_panic) = body(w, &mut viol, &mut model, &mut timed, &mut installs_done, &mut prev_snap, &mut named, &mut lib_maps, rng);
        // scope exit: normal, or by unwinding out of the scope that owns the injector
        let before = if mons.c17 { Some(watch_images(w)) } else { None };
        let m0 = ip::mark();
        before_drop_marks.set(m0);
        // C17 on its own: in one lifetime out of 40 the OS refuses every munmap of the scope exit; the restored
        // entries must be flushed all the same
        if CONTENDED.load(Ordering::SeqCst) {
            let t0 = std::time::Instant::now();
            while !WAITER_ASKING.load(Ordering::SeqCst) && t0.elapsed().as_secs() < 5 {
                std::hint::spin_loop();
            }
            std::thread::sleep(std::time::Duration::from_millis(2));
        }
        let refuse_munmap = mons.c17 && !mons.c12 && !mons.c03 && !mons.c02 && !user_panic && p.exit == Exit::Normal && w.lifetimes % 40 == 7;
        if refuse_munmap {
            w.munmap_refused_exits += 1;
            ip::arm_fail_range(ip::K_MUNMAP, 0, i64::MAX);
        }
        let r = std::panic::catch_unwind(std::panic::AssertUnwindSafe(|| {
            ip::lib(|| {
                let _scope_owner = inj;
                if user_panic {
                    panic!("USER: injected panic, unwinding through the scope that owns the injector");
                }
            })
        }));
        if refuse_munmap {
            ip::disarm_all();
        }
        let leftovers_of_refused_munmap = refuse_munmap;
        if mons.c17 && viol.is_none() {
            let after = watch_images(w);
            let ev = ip::since(m0).unwrap_or_default();
            if let Some(v) = flush_check(w, before.as_ref().unwrap(), &after, &[], &ev) {
                viol = Some((v.0, v.1.s("during", if refuse_munmap { "drop with munmap refused" } else { "drop" })));
            }
        }
        if leftovers_of_refused_munmap {
            // what the refused munmap calls left behind is the harness's to clean up
            ip::harness_release_leftovers(ledger0);
        }
        if let Err(e) = r {
            std::panic::resume_unwind(e);
        }
    });
    let exit_seen = match &res {
        Ok(_) => "normal".to_string(),
        Err(m) => panicobs::classify(m).to_string(),
    };
    *w.exits.entry(format!("{:?}->{}", p.exit, exit_seen)).or_insert(0) += 1;
    let mut per: HashMap<usize, usize> = HashMap::new();
    for s in p.steps.iter().take(installs_done) {
        *per.entry(s.target).or_insert(0) += 1;
    }
    let maxrep = per.values().cloned().max().unwrap_or(0);
    for k in [2usize, 3, 5] {
        if maxrep >= k {
            *w.rep_hist.entry(k).or_insert(0) += 1;
        }
    }
    let mut detail = J::new().n("installs", installs_done).s("exit_planned", &format!("{:?}", p.exit)).s("exit_seen", &exit_seen).n("panics", msgs.len()).n("max_repetition", maxrep);
    if let Some((s, d)) = viol {
        return (Verdict::Violated, s, d.o("lifetime", detail));
    }
    // ---------------- after scope exit
    if mons.c02 {
        for (i, t) in w.pool.targets.iter().enumerate() {
            let now = bytes_at(t.addr, w.images[i].len());
            if now != w.images[i] {
                let reps = per.get(&i).cloned().unwrap_or(0);
                let d = detail.s("target", &t.name).s("bytes_now", &out::hex(&now[..now.len().min(16)])).s("bytes_before", &out::hex(&w.images[i][..w.images[i].len().min(16)])).n("times_installed_in_this_lifetime", reps);
                let sig = if reps >= 2 { "c02:bytes-not-restored:same-target-installed-more-than-once" } else { "c02:bytes-not-restored" };
                return (Verdict::Violated, sig.into(), d);
            }
        }
        if bytes_at(w.pool.synth.arena.base, w.pool.synth.arena.len) != w.arena_image {
            return (Verdict::Violated, "c02:arena-bytes-not-restored".into(), detail);
        }
        for t in w.pool.targets.iter() {
            let got = (t.call)();
            w.calls_checked += 1;
            if got != t.orig {
                return (Verdict::Violated, "c02:original-behaviour-not-back".into(), detail.s("target", &t.name).n("got", got));
            }
        }
    }
    if mons.c03 {
        for (ar, pat) in w.foreign_pages.drain(..) {
            let ok = maps::read_vec(ar.base, PAGE).map(|b| b.iter().all(|x| *x == pat)).unwrap_or(false);
            if !ok {
                std::mem::forget(ar);
                return (Verdict::Violated, "c03:foreign-executable-page-unmapped-or-overwritten".into(), detail);
            }
            w.foreign_pages_checked += 1;
        }
        let snap = maps::snapshot();
        w.snapshots += 1;
        let d = maps::diff(w.base_snap.as_ref().unwrap(), &snap);
        w.bytes_compared += d.compared as u64;
        // bytes of a named function's own entry slot that did not come back are C02's business, not C03's
        let foreign: Vec<&(usize, u8, u8)> = d.changed.iter().filter(|(a, _, _)| !named.iter().any(|ti| *a >= w.pool.targets[*ti].addr && *a < slot_end(&w.starts, w.pool.targets[*ti].addr))).collect();
        if let Some(&&(a, o, n)) = foreign.first() {
            w.diff_other += foreign.len() as u64;
            return (Verdict::Violated, "c03:byte-differs-after-scope-exit".into(), detail.x("addr", a).n("old", o).n("new", n).s("mapping", &snap.name_of(a)));
        }
        if !d.changed.is_empty() {
            return (Verdict::Inconclusive, "entry-slot-not-restored:left-to-C02".into(), detail);
        }
        if !d.appeared.is_empty() || !d.vanished.is_empty() {
            return (Verdict::Violated, "c03:executable-mappings-differ-after-scope-exit".into(), detail.s("appeared", &format!("{:x?}", d.appeared)).s("vanished", &format!("{:x?}", d.vanished)));
        }
        for &(a, id) in &w.pool.neighbours {
            let got = unsafe { call0(a) };
            w.neighbours_called += 1;
            if got as u32 != id {
                return (Verdict::Violated, "c03:neighbour-function-changed-behaviour".into(), detail.x("addr", a));
            }
        }
    }
    if mons.c12 {
        // a foreign mapping placed exactly where a trampoline of the PREVIOUS lifetime used to be must
        // survive this lifetime untouched (nothing the injector did not allocate is ever unmapped/replaced)
        if let Some((ar, pat)) = w.reuse_canary.take() {
            let ok = maps::read_vec(ar.base, PAGE).map(|b| b.iter().all(|x| *x == pat)).unwrap_or(false);
            let still_rw = maps::parse().iter().any(|m| m.start <= ar.base && ar.base < m.end && !m.x());
            if !ok || !still_rw {
                return (Verdict::Violated, "c12:foreign-mapping-at-a-freed-trampoline-address-was-replaced".into(), detail.x("canary", ar.base).b("content_intact", ok).b("still_non_executable", still_rw));
            }
            w.reuse_canaries_checked += 1;
        }
        if let Some(&(a, l)) = lib_maps.last() {
            if w.lifetimes % 3 == 0 && maps::is_free(a, page_ceil(l)) {
                if let Some(ar) = Arena::map_at(a, PAGE, RW) {
                    let pat = 0xAB;
                    ar.fill(pat);
                    w.reuse_canary = Some((ar, pat));
                }
            }
        }
        w.ledger_checks += 1;
        let an = ip::A_FOREIGN_UNMAP.load(Ordering::SeqCst) + ip::A_LEN_MISMATCH.load(Ordering::SeqCst);
        if an != anomalies0 {
            return (
                Verdict::Violated,
                if ip::A_LEN_MISMATCH.load(Ordering::SeqCst) > 0 { "c12:munmap-length-differs-from-mapping".into() } else { "c12:munmap-of-something-the-library-did-not-map".into() },
                detail.x("addr", ip::A_LAST_ADDR.load(Ordering::SeqCst)).n("len", ip::A_LAST_LEN.load(Ordering::SeqCst)),
            );
        }
        if ip::ledger_len() != ledger0 {
            return (Verdict::Violated, "c12:mapping-still-live-after-injector-gone".into(), detail.n("live", ip::ledger_len()).s("ledger", &format!("{:x?}", ip::ledger_snapshot())));
        }
        for (ar, pat) in &w.canaries {
            let ok = maps::read_vec(ar.base, PAGE).map(|b| b.iter().all(|x| x == pat)).unwrap_or(false);
            if !ok {
                return (Verdict::Violated, "c12:canary-mapping-vanished".into(), detail.x("canary", ar.base));
            }
        }
        // (under valgrind /proc/self/maps also lists valgrind's own translation caches: skipped there)
        if !w.under_valgrind && (w.lifetimes % 64 == 0 || w.lifetimes < 4) {
            w.maps_checks += 1;
            let now = exec_anon_pages();
            if now != w.base_exec_anon {
                let extra: Vec<_> = now.difference(&w.base_exec_anon).cloned().collect();
                let missing: Vec<_> = w.base_exec_anon.difference(&now).cloned().collect();
                return (Verdict::Violated, "c12:executable-anonymous-page-set-changed".into(), detail.s("extra", &format!("{:x?}", extra)).s("missing", &format!("{:x?}", missing)));
            }
        }
    }
    detail = detail.n("calls_checked_total", w.calls_checked);
    (Verdict::Held, String::new(), detail)
}
