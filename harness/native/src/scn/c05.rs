//! C05 — a panic while fakes are installed still restores, unlocks and never aborts.
//! Crash-point x fault enumeration: a scripted body `new; [pending times-fakes]; install A; call A;
//! install B; call B; install C; call C; drop` and, for every position, one injected panic of every
//! kind the library or a user can raise there.
use crate::arena::PAGE;
use super::pool::*;
use super::util::*;
use crate::interpose as ip;
use crate::out::{self, Verdict, J};
use crate::panicobs;
use crate::rng::{hash64, Rng};
use crate::Ctx;
use injectorpp::interface::injector::*;
use std::sync::atomic::Ordering;
use std::time::Duration;

#[derive(Clone, Copy, Debug, PartialEq)]
#[repr(usize)]
enum PK {
    None,
    User,
    WhenReject,
    OverCall,
    SigMismatch,
    SigMismatchFakeMacro,
    NullTarget,
    NullFake,
    BoolOnNonBool,
    AsyncWrongOutput,
    MmapFail,
    MprotectFail,
    UncheckedMix,
    /// the user's panic carries a payload that is not a string
    UserNonString,
    /// the user's panic is raised by the `returns:` expression of a fake!, i.e. inside the fake's frame
    UserInReturns,
    /// ... by the body of a closure fake
    UserInClosure,
    /// an over-call panic is caught by the test body (nested catch_unwind), the body carries on and leaves the
    /// scope normally: verification then raises the one and only panic that leaves the scope
    OverCallCaught,
    /// user panic while the OS refuses every munmap: the trampolines cannot be given back during the unwind
    UserMunmapFails,
    /// installation on a function whose entry straddles two pages while the OS refuses to make the SECOND page
    /// writable: refused, and not one byte of the function written
    MprotectFailSecondPage,
    /// a second installation on a function this injector has ALREADY faked is refused (signature mismatch): the
    /// function is a refused target too - untouched means its earlier fake stays in effect, bytes unchanged
    SigMismatchOnFakedTarget,
    /// user panic; a destructor that runs during the unwinding installs one more fake through the injector and
    /// calls the function (clean-up code that stubs something out)
    InstallDuringUnwind,
    /// 80 fakes are live at once (repeated targets included), then the user panics
    ManyLiveFakes,
    /// the platform refuses to (re-)make pages read+execute (W^X / execmem policy) while one more fake is installed
    /// and called; no panic is injected: the library either works or refuses loudly, it does not crash
    MprotectRxRefused,
    /// the value expression of an async fake panics; the await is contained by the test body, which goes on
    UserInAsyncValue,
    /// two over-budget calls are contained by the test body (the counter runs two ahead of the budget), then the
    /// user panics: the injector goes away by unwinding with a verdict it must keep to itself
    TwoOverCallsCaughtThenUserPanic,
}
const KINDS_ALL: [PK; 25] = [PK::TwoOverCallsCaughtThenUserPanic, PK::InstallDuringUnwind, PK::ManyLiveFakes, PK::MprotectRxRefused, PK::UserInAsyncValue, PK::SigMismatchOnFakedTarget, PK::UserMunmapFails, PK::MprotectFailSecondPage, PK::UserNonString, PK::UserInReturns, PK::UserInClosure, PK::OverCallCaught, PK::None, PK::User, PK::WhenReject, PK::OverCall, PK::SigMismatch, PK::SigMismatchFakeMacro, PK::NullTarget, PK::NullFake, PK::BoolOnNonBool, PK::AsyncWrongOutput, PK::MmapFail, PK::MprotectFail, PK::UncheckedMix];

#[derive(Clone, Debug)]
struct Script {
    pos: usize,
    kind: PK,
    /// pending expectations: for each, (budget, calls made) — satisfied iff equal
    pending: Vec<(usize, usize)>,
    mix: u64,
    /// another thread is already blocked in InjectorPP::new() / prevent() when the panic unwinds the holder
    waiter: bool,
}

#[inline(never)]
fn wrong_sig(_a: i64) -> i32 {
    1
}
#[inline(never)]
fn victim() -> i32 {
    std::hint::black_box(0x51C7)
}
#[inline(never)]
fn raise_user() -> i32 {
    panic!("USER: raised while the fake was computing its return value")
}
#[inline(never)]
fn refuse_me() -> i32 {
    std::hint::black_box(0x4EF0)
}
async fn refuse_async(x: u32) -> u32 {
    x + 40
}

/// One counted fake built by ONE source line, used both inside every script (where the scope may be
/// torn down by a panic) and by the fresh-thread probe afterwards; the harness never touches its
/// counter, exactly like a set-up helper shared by tests.
fn shared_counted_fake(inj: &mut InjectorPP) {
    inj.when_called(injectorpp::func!(fn (r1)() -> i32)).will_execute(injectorpp::fake!(func_type: fn() -> i32, returns: 0x7111, times: 1));
}

fn pending_combos() -> Vec<Vec<(usize, usize)>> {
    vec![
        vec![],
        vec![(1, 1)],
        vec![(2, 1)],
        vec![(0, 0)],
        vec![(1, 1), (2, 2)],
        vec![(1, 1), (2, 0)],
        vec![(3, 1), (1, 0)],
        vec![(1, 1), (2, 2), (1, 1)],
        vec![(1, 0), (2, 1), (3, 2)],
        vec![(1, 1), (2, 1), (0, 0)],
    ]
}

fn gen(ctx: &Ctx) -> Vec<Script> {
    let mut v = Vec::new();
    let mixes: u64 = if ctx.n > 0 { ctx.n } else if ctx.thorough { 64 } else { 1 };
    for mix in 0..mixes {
        for pos in 0..7 {
            for &kind in &KINDS_ALL {
                for p in pending_combos() {
                    if kind == PK::None && pos != 6 {
                        continue; // no injected panic: only the final drop matters
                    }
                    let waiter = v.len() % 3 == 0;
                    v.push(Script { pos, kind, pending: p, mix, waiter });
                }
            }
        }
    }
    v
}

fn class_of(s: &Script) -> String {
    let sat = s.pending.iter().filter(|(b, c)| b == c).count();
    format!("pos{}/{:?}/pending{}-satisfied{}", s.pos, s.kind, s.pending.len(), sat)
}

struct Obs {
    refused_events: u64,
    refused_target_intact: bool,
    injected_msg_class: String,
    same_thread_again: String,
    unwind_install_saw: i32,
}

/// the body that runs on a worker thread, under catch_unwind
fn body(pool: &Pool, s: &Script, rng: &mut Rng, obs: &mut Obs) {
    let _lib = ip::LibScope::enter();
    let mut inj = InjectorPP::new();
    if s.waiter {
        // let the waiter go for the guard now, and give it time to block on it
        HOLDER_IN.store(true, Ordering::SeqCst);
        let t0 = std::time::Instant::now();
        while !WAITER_ASKING.load(Ordering::SeqCst) && t0.elapsed() < Duration::from_secs(5) {
            std::hint::spin_loop();
        }
        std::thread::sleep(Duration::from_millis(3));
    }
    shared_counted_fake(&mut inj);
    if r1() != 0x7111 {
        panic!("USER: HARNESS-MODEL shared counted fake not in effect");
    }
    // pending expectations on three fixed synthetic targets with the first three `times` sites
    let i32_targets: Vec<usize> = pool.targets.iter().enumerate().filter(|(_, t)| t.fam == Fam::I32 && t.name != "r0" && t.name != "r1").map(|(i, _)| i).collect();
    for (k, &(budget, made)) in s.pending.iter().enumerate() {
        let ti = i32_targets[k];
        let _ = install(&mut inj, &pool.targets[ti], Kind::FakeTimes, k, budget);
        for _ in 0..made {
            let _ = (pool.targets[ti].call)();
        }
    }
    // A, B, C drawn from the pool (not among the pending targets, not the refusal target)
    let mut picks: Vec<(usize, Kind)> = Vec::new();
    while picks.len() < 3 {
        let ti = rng.below(pool.targets.len() as u64) as usize;
        if i32_targets[..3].contains(&ti) || picks.iter().any(|p| p.0 == ti) || pool.targets[ti].name == "r0" || pool.targets[ti].name == "r1" {
            continue;
        }
        let ks = kinds_of(pool.targets[ti].fam);
        let k = *rng.pick(ks);
        if k == Kind::FakeTimes {
            continue;
        }
        picks.push((ti, k));
    }
    // in half of the scripts C re-fakes the function A already faked (the same function twice in one
    // injector: the restore order matters on every exit path)
    if (s.pos + s.pending.len() + s.kind as usize) % 2 == 0 {
        let ti = picks[0].0;
        let ks = kinds_of(pool.targets[ti].fam);
        let mut k = *rng.pick(ks);
        if k == Kind::FakeTimes {
            k = ks[0];
        }
        picks[2] = (ti, k);
    }
    // the over-call / when-reject victims: a method fake with `when: a == 5` and budget 1
    let method = pool.targets.iter().position(|t| t.fam == Fam::Method).unwrap();
    let mut step = 0usize;
    let last_installed: std::cell::Cell<Option<(usize, i64)>> = std::cell::Cell::new(None);
    let mut inject = |inj: &mut InjectorPP, obs: &mut Obs| {
        let m0 = ip::mark();
        // run the refused API call under its own catch so that the events can be counted, then
        // re-raise: the panic propagates to scope exit exactly as it would in a test body
        fn refuse_at(m0: u64, inj: &mut InjectorPP, obs: &mut Obs, f: &mut dyn FnMut(&mut InjectorPP)) {
            let r = std::panic::catch_unwind(std::panic::AssertUnwindSafe(|| f(inj)));
            // faults are injected on the install path only: the restore path of the unwind runs unfaulted
            ip::disarm_all();
            if let Some(ev) = ip::since(m0) {
                obs.refused_events = ev.iter().filter(|e| e.in_lib == 1 && (e.kind == ip::EV_MPROTECT || e.kind == ip::EV_FLUSH || (e.kind == ip::EV_MMAP && (e.prot & libc::PROT_EXEC) != 0))).count() as u64;
            }
            obs.refused_target_intact = bytes_at(refuse_me as usize, 16) == REFUSE_IMAGE.with(|c| c.borrow().clone());
            if let Err(e) = r {
                std::panic::resume_unwind(e);
            }
        }
        let mut refuse = |f: &mut dyn FnMut(&mut InjectorPP), obs: &mut Obs, inj: &mut InjectorPP| refuse_at(m0, inj, obs, f);
        match s.kind {
            PK::None => {}
            PK::User => panic!("USER: injected at position {}", s.pos),
            PK::TwoOverCallsCaughtThenUserPanic => {
                let _ = install(inj, &pool.targets[method], Kind::FakeTimes, 0, 1);
                let st = S { k: 1 };
                let _ = st.m(5);
                for _ in 0..2 {
                    if std::panic::catch_unwind(|| S { k: 1 }.m(5)).is_ok() {
                        panic!("USER: HARNESS-MODEL over-call was admitted");
                    }
                }
                let _ = panicobs::take();
                panic!("USER: injected at position {} after two contained over-calls", s.pos)
            }
            PK::UserNonString => std::panic::panic_any(0xC05_u32),
            PK::InstallDuringUnwind => {
                struct InstallsOnDrop(*mut InjectorPP);
                impl Drop for InstallsOnDrop {
                    fn drop(&mut self) {
                        // std::thread::panicking() is true here
                        let inj = unsafe { &mut *self.0 };
                        inj.when_called(injectorpp::func!(fn (victim)() -> i32)).will_execute_raw(injectorpp::func!(fn (fk2)() -> i32));
                        UNWIND_INSTALL_SAW.with(|c| c.set(victim()));
                    }
                }
                UNWIND_INSTALL_SAW.with(|c| c.set(-1));
                let _g = InstallsOnDrop(inj as *mut InjectorPP);
                panic!("USER: injected at position {} (a destructor installs a fake while this unwinds)", s.pos)
            }
            PK::ManyLiveFakes => {
                let cands: Vec<usize> = pool.targets.iter().enumerate().filter(|(_, t)| t.fam == Fam::I32 && t.name != "r0" && t.name != "r1").map(|(i, _)| i).collect();
                for k in 0..80usize {
                    let ti = cands[3 + k % (cands.len() - 3)];
                    let _ = install(inj, &pool.targets[ti], Kind::Raw, k, 0);
                }
                panic!("USER: injected at position {} with 80 more fakes live", s.pos)
            }
            PK::MprotectRxRefused => {
                ip::FAIL_MPROTECT_PROT.store((libc::PROT_READ | libc::PROT_EXEC) as i64, Ordering::SeqCst);
                let r = std::panic::catch_unwind(std::panic::AssertUnwindSafe(|| {
                    inj.when_called(injectorpp::func!(fn (victim)() -> i32)).will_execute_raw(injectorpp::func!(fn (fk2)() -> i32));
                }));
                ip::disarm_all();
                match r {
                    // installed all the same: then it works
                    Ok(()) => {
                        if victim() != 0x7102 {
                            panic!("USER: HARNESS-MODEL fake installed under a refusing platform is not in effect");
                        }
                    }
                    // refused loudly: fine too, the panic goes on like any refusal
                    Err(e) => std::panic::resume_unwind(e),
                }
            }
            PK::UserInAsyncValue => {
                inj.when_called_async(injectorpp::async_func!(refuse_async(0), u32)).will_return_async(injectorpp::async_return!(raise_user() as u32, u32));
                let r = std::panic::catch_unwind(|| block_on(refuse_async(1)).0);
                if r.is_ok() {
                    panic!("USER: HARNESS-MODEL the value expression of the async fake did not run");
                }
                let _ = panicobs::take();
            }
            PK::SigMismatchOnFakedTarget => match last_installed.get() {
                Some((ti, expect)) if matches!(pool.targets[ti].fam, Fam::I32 | Fam::Bool | Fam::Gen8 | Fam::Gen16 | Fam::Gen32 | Fam::Method | Fam::LibcInt | Fam::LibcLong | Fam::LibcStr) => {
                    let t = &pool.targets[ti];
                    let img0 = img(t.addr);
                    let r = std::panic::catch_unwind(std::panic::AssertUnwindSafe(|| inj.when_called((t.mk)()).will_execute_raw(injectorpp::func!(fn (wrong_sig)(i64) -> i32))));
                    if img_differs(t.addr, &img0) || (t.call)() != expect {
                        obs.refused_target_intact = false;
                    }
                    if let Err(e) = r {
                        std::panic::resume_unwind(e);
                    }
                }
                _ => refuse(&mut |inj| inj.when_called(injectorpp::func!(fn (refuse_me)() -> i32)).will_execute_raw(injectorpp::func!(fn (wrong_sig)(i64) -> i32)), obs, inj),
            },
            PK::UserMunmapFails => {
                ip::arm_fail_range(ip::K_MUNMAP, 0, i64::MAX);
                panic!("USER: injected at position {} (munmap refused from here on)", s.pos)
            }
            PK::MprotectFailSecondPage => match pool.targets.iter().find(|t| t.synthetic && t.addr % PAGE == PAGE - 3) {
                Some(t) => {
                    ip::FAIL_MPROTECT_PAGE.store((t.addr & !(PAGE - 1)) + PAGE, Ordering::SeqCst);
                    let a = t.addr;
                    refuse(&mut |inj| inj.when_called(fp(a, SIG_I32)).will_execute_raw(injectorpp::func!(fn (fk0)() -> i32)), obs, inj);
                }
                None => panic!("mprotect failed (no page-straddling target in this pool: stand-in for the refusal)"),
            },
            PK::UserInReturns => {
                inj.when_called(injectorpp::func!(fn (victim)() -> i32)).will_execute(injectorpp::fake!(func_type: fn() -> i32, returns: raise_user()));
                let _ = victim();
            }
            PK::UserInClosure => {
                inj.when_called(injectorpp::func!(fn (victim)() -> i32)).will_execute_raw(injectorpp::closure!(|| -> i32 { raise_user() }, fn() -> i32));
                let _ = victim();
            }
            PK::OverCallCaught => {
                let _ = install(inj, &pool.targets[method], Kind::FakeTimes, 0, 1);
                let st = S { k: 1 };
                let _ = st.m(5);
                let r = std::panic::catch_unwind(|| S { k: 1 }.m(5)); // past the budget, caught by the test body
                if r.is_ok() {
                    panic!("USER: HARNESS-MODEL over-call was admitted");
                }
                let _ = panicobs::take(); // only panics raised from here on leave the scope
            }
            PK::WhenReject => {
                let _ = install(inj, &pool.targets[method], Kind::FakeMacro, 0, 0);
                let st = S { k: 1 };
                let _ = st.m(6); // fails `when: a == 5`
            }
            PK::OverCall => {
                let _ = install(inj, &pool.targets[method], Kind::FakeTimes, 0, 1);
                let st = S { k: 1 };
                let _ = st.m(5);
                let _ = st.m(5); // past the budget
            }
            PK::SigMismatch => refuse(&mut |inj| inj.when_called(injectorpp::func!(fn (refuse_me)() -> i32)).will_execute_raw(injectorpp::func!(fn (wrong_sig)(i64) -> i32)), obs, inj),
            PK::SigMismatchFakeMacro => refuse(
                &mut |inj| inj.when_called(injectorpp::func!(fn (refuse_me)() -> i32)).will_execute(injectorpp::fake!(func_type: fn(_a: i64) -> i32, returns: 3, times: 1)),
                obs,
                inj,
            ),
            PK::NullTarget => refuse(&mut |inj| inj.when_called(fp(0, SIG_I32)).will_execute_raw(injectorpp::func!(fn (fk0)() -> i32)), obs, inj),
            PK::NullFake => refuse(&mut |inj| inj.when_called(injectorpp::func!(fn (refuse_me)() -> i32)).will_execute_raw(fp(0, SIG_I32)), obs, inj),
            PK::BoolOnNonBool => refuse(&mut |inj| inj.when_called(injectorpp::func!(fn (refuse_me)() -> i32)).will_return_boolean(true), obs, inj),
            PK::AsyncWrongOutput => refuse(
                &mut |inj| inj.when_called_async(injectorpp::async_func!(refuse_async(0), u32)).will_return_async(injectorpp::async_return!(7u64, u64)),
                obs,
                inj,
            ),
            PK::UncheckedMix => refuse(
                &mut |inj| unsafe { inj.when_called(injectorpp::func!(fn (refuse_me)() -> i32)).will_execute_raw(injectorpp::func_unchecked!(fk0)) },
                obs,
                inj,
            ),
            PK::MmapFail => {
                ip::arm_fail_range(ip::K_MMAP_EXEC, 0, i64::MAX);
                refuse(&mut |inj| inj.when_called(injectorpp::func!(fn (refuse_me)() -> i32)).will_execute_raw(injectorpp::func!(fn (fk0)() -> i32)), obs, inj);
            }
            PK::MprotectFail => {
                ip::arm_fail_range(ip::K_MPROTECT, 0, i64::MAX);
                refuse(&mut |inj| inj.when_called(injectorpp::func!(fn (refuse_me)() -> i32)).will_execute_raw(injectorpp::func!(fn (fk0)() -> i32)), obs, inj);
            }
        }
    };
    for (ti, k) in picks.iter() {
        if step == s.pos {
            inject(&mut inj, obs);
        }
        step += 1;
        let inst = install(&mut inj, &pool.targets[*ti], *k, rng.below(64) as usize, 0);
        if step == s.pos {
            inject(&mut inj, obs);
        }
        step += 1;
        last_installed.set(Some((*ti, inst.expect)));
        let got = (pool.targets[*ti].call)();
        if got != inst.expect {
            panic!("USER: HARNESS-MODEL fake not in effect: {} != {}", got, inst.expect);
        }
    }
    if step == s.pos {
        inject(&mut inj, obs);
    }
    drop(inj);
}

static HOLDER_IN: std::sync::atomic::AtomicBool = std::sync::atomic::AtomicBool::new(false);
static WAITER_ASKING: std::sync::atomic::AtomicBool = std::sync::atomic::AtomicBool::new(false);
thread_local! {
    static UNWIND_INSTALL_SAW: std::cell::Cell<i32> = const { std::cell::Cell::new(-1) };
    static REFUSE_IMAGE: std::cell::RefCell<Vec<u8>> = const { std::cell::RefCell::new(Vec::new()) };
}

pub fn run(ctx: &Ctx) {
    let scripts = gen(ctx);
    let pool = std::sync::Arc::new(build_pool_full(ctx.seed, ctx.get_u("nosynth", 0) == 1, true));
    let images: Vec<Vec<u8>> = pool.targets.iter().map(|t| img(t.addr)).collect();
    let refuse_image = bytes_at(refuse_me as usize, 16);
    let victim_image = bytes_at(victim as usize, 16);
    let refuse_async_addr = poll_addr(&refuse_async(0));
    let refuse_async_image = bytes_at(refuse_async_addr, 16);
    let mut by_msg: std::collections::BTreeMap<String, u64> = std::collections::BTreeMap::new();
    let mut probes = 0u64;
    let mut waiters = 0u64;
    let mut leaked_after_mprotect = 0u64;
    for (idx, s) in scripts.iter().enumerate() {
        let idx = idx as u64;
        if !ctx.mine(idx) {
            continue;
        }
        let class = class_of(s);
        out::intent(idx, &class, &J::new().s("script", &format!("{:?}", s)).s("crash_sig", &format!("{:?}/pending-unsatisfied={}", s.kind, s.pending.iter().any(|(b, c)| b != c))));
        let led0 = ip::ledger_len();
        let pool2 = pool.clone();
        let s2 = s.clone();
        let seed = ctx.seed;
        let ri = refuse_image.clone();
        HOLDER_IN.store(false, Ordering::SeqCst);
        WAITER_ASKING.store(false, Ordering::SeqCst);
        let waiter = if s.waiter {
            let wants_preventer = idx % 2 == 1;
            Some(std::thread::spawn(move || {
                let t0 = std::time::Instant::now();
                while !HOLDER_IN.load(Ordering::SeqCst) && t0.elapsed() < Duration::from_secs(10) {
                    std::hint::spin_loop();
                }
                WAITER_ASKING.store(true, Ordering::SeqCst);
                std::panic::catch_unwind(|| {
                    if wants_preventer {
                        let p = InjectorPP::prevent(); // blocks until the holder has unwound
                        let ok = p.is_active() && r0() == 0x1100;
                        drop(p);
                        ok
                    } else {
                        let mut i = InjectorPP::new(); // blocks until the holder has unwound
                        i.when_called(injectorpp::func!(fn (r0)() -> i32)).will_execute_raw(injectorpp::func!(fn (fk1)() -> i32));
                        let ok = r0() == 0x7101;
                        drop(i);
                        ok && r0() == 0x1100
                    }
                })
                .map_err(|p| panicobs::payload_msg(&p))
            }))
        } else {
            None
        };
        let h = std::thread::spawn(move || {
            REFUSE_IMAGE.with(|c| *c.borrow_mut() = ri);
            let mut rng = Rng::new(seed ^ hash64(s2.mix.wrapping_mul(77) ^ 0xC05));
            let mut obs = Obs { refused_events: 0, refused_target_intact: true, injected_msg_class: String::new(), same_thread_again: String::new(), unwind_install_saw: -1 };
            let (r, msgs) = panicobs::observe(|| body(&pool2, &s2, &mut rng, &mut obs));
            ip::disarm_all();
            if let Err(m) = &r {
                obs.injected_msg_class = panicobs::classify(m).to_string();
            }
            // "afterwards any thread" includes this one: the thread whose scope just unwound asks for both guard kinds again
            let again = std::panic::catch_unwind(|| {
                let i = InjectorPP::new();
                drop(i);
                let p = InjectorPP::prevent();
                let a = p.is_active();
                drop(p);
                a
            });
            obs.unwind_install_saw = UNWIND_INSTALL_SAW.with(|c| c.get());
            obs.same_thread_again = match again {
                Ok(true) => String::new(),
                Ok(false) => "preventer not active".into(),
                Err(p) => format!("panicked: {}", panicobs::payload_msg(&p)),
            };
            (r.is_ok(), r.err().unwrap_or_default(), msgs, obs)
        });
        {
            // bounded progress: a scripted body takes microseconds; 30 s without it coming back means the scope exit
            // (or the install) does not terminate
            let t0 = std::time::Instant::now();
            while !h.is_finished() && t0.elapsed() < Duration::from_secs(30) {
                std::thread::sleep(Duration::from_micros(200));
            }
            if !h.is_finished() {
                out::outcome(idx, &class, Verdict::Violated, "scripted-body-did-not-come-back-within-30s", &J::new().s("script", &format!("{:?}", s)));
                out::summary(&J::new().n("scripts", idx));
                std::process::exit(75);
            }
        }
        let (ok, msg, msgs, obs) = match h.join() {
            Ok(x) => x,
            Err(_) => {
                out::outcome(idx, &class, Verdict::Violated, "panic-escaped-the-observer", &J::new());
                continue;
            }
        };
        // the thread that was already waiting for the guard while the holder unwound must get it, in working order;
        // it is waited for BEFORE anything is compared (it fakes r0 for a moment once it has the guard)
        let mut waiter_verdict: Option<Result<bool, String>> = None;
        if let Some(wh) = waiter {
            let t0 = std::time::Instant::now();
            while !wh.is_finished() && t0.elapsed() < Duration::from_secs(30) {
                std::thread::sleep(Duration::from_millis(1));
            }
            if !wh.is_finished() {
                out::outcome(idx, &class, Verdict::Violated, "guard-not-released-after-unwind", &J::new().s("who", "thread that was waiting when the holder unwound"));
                out::summary(&J::new().n("scripts", idx));
                std::process::exit(75);
            }
            waiters += 1;
            waiter_verdict = Some(wh.join().unwrap_or(Err("waiter thread died".into())));
        }
        ip::disarm_all();
        *by_msg.entry(if ok { "no-panic".to_string() } else { panicobs::classify(&msg).to_string() }).or_insert(0) += 1;
        let unsat = s.pending.iter().any(|(b, c)| b != c);
        let mut d = J::new().b("returned_normally", ok).s("panic", &msg).n("panics_raised", msgs.len()).s("class_seen", &obs.injected_msg_class).n("refused_call_events", obs.refused_events);
        let mut sig = String::new();
        // (a) at most one panic
        if msgs.len() > 1 {
            sig = "more-than-one-panic-raised".into();
        }
        // (b) expected outcome class
        let expect = match s.kind {
            PK::None => {
                if unsat {
                    "count-mismatch"
                } else {
                    "no-panic"
                }
            }
            PK::User | PK::UserNonString | PK::UserInReturns | PK::UserInClosure | PK::UserMunmapFails | PK::InstallDuringUnwind | PK::ManyLiveFakes | PK::TwoOverCallsCaughtThenUserPanic => "user",
            PK::MprotectRxRefused | PK::UserInAsyncValue => {
                if unsat {
                    "count-mismatch"
                } else {
                    "no-panic"
                }
            }
            PK::MprotectFailSecondPage => "mprotect-failed",
            PK::OverCallCaught => "count-mismatch",
            PK::WhenReject => "unexpected-args",
            PK::OverCall => "over-called",
            PK::SigMismatch | PK::SigMismatchFakeMacro | PK::AsyncWrongOutput | PK::UncheckedMix | PK::SigMismatchOnFakedTarget => "sig-mismatch",
            PK::NullTarget | PK::NullFake => "null-pointer",
            PK::BoolOnNonBool => "bool-sig-mismatch",
            PK::MmapFail => "alloc-failed",
            PK::MprotectFail => "mprotect-failed",
        };
        let seen = if ok { "no-panic".to_string() } else { panicobs::classify(&msg).to_string() };
        if sig.is_empty() && seen.starts_with("user") && msg.contains("HARNESS-MODEL") {
            out::outcome(idx, &class, Verdict::Inconclusive, "harness-model-mismatch", &d);
            continue;
        }
        // the property does not fix the wording of library panics: what is judged is whether a panic
        // was raised (and that a user panic arrives as the user raised it)
        let ok_class = if s.kind == PK::ManyLiveFakes && seen != "no-panic" {
            // the user's panic, or a loud refusal by the library on the way (whether it may limit the number of live
            // fakes is C02's question): what C05 asks is judged below - everything restored, guard usable
            true
        } else if s.kind == PK::MprotectRxRefused && seen != "user" {
            // works, or refuses loudly (any library panic): both are what the property asks for
            true
        } else if expect == "no-panic" { seen == "no-panic" } else if expect == "user" { seen == "user" } else { seen != "no-panic" && seen != "user" };
        if sig.is_empty() && !ok_class {
            sig = format!("expected-{}-saw-{}", if expect == "no-panic" || expect == "user" { expect } else { "a-library-panic" }, seen);
        }
        // (c) refusals happen before anything is modified
        let is_refusal = matches!(s.kind, PK::SigMismatch | PK::SigMismatchFakeMacro | PK::NullTarget | PK::NullFake | PK::BoolOnNonBool | PK::AsyncWrongOutput | PK::UncheckedMix);
        if sig.is_empty() && is_refusal && obs.refused_events != 0 {
            sig = "refused-install-touched-memory-before-refusing".into();
        }
        if sig.is_empty() && !obs.refused_target_intact {
            sig = "refused-target-modified".into();
        }
        // (d) everything restored
        if sig.is_empty() {
            for (i, t) in pool.targets.iter().enumerate() {
                if img_differs(t.addr, &images[i]) {
                    sig = "target-not-restored-after-unwind".into();
                    d = d.s("target", &t.name);
                    break;
                }
            }
        }
        if sig.is_empty() && (bytes_at(victim as usize, 16) != victim_image || victim() != 0x51C7) {
            sig = "target-not-restored-after-unwind".into();
            d = d.s("target", "victim (faked by a fake that panics)");
        }
        if sig.is_empty() && (bytes_at(refuse_me as usize, 16) != refuse_image || bytes_at(refuse_async_addr, 16) != refuse_async_image) {
            sig = "refused-target-modified".into();
        }
        if sig.is_empty() {
            for t in pool.targets.iter() {
                if (t.call)() != t.orig {
                    sig = "original-behaviour-not-back-after-unwind".into();
                    d = d.s("target", &t.name);
                    break;
                }
            }
            if refuse_me() != 0x4EF0 {
                sig = "refused-target-behaviour-changed".into();
            }
        }
        // mappings: all trampolines of the successful installs are gone (a trampoline placed before an
        // injected mprotect failure is noted only)
        let left = ip::ledger_len() - led0.min(ip::ledger_len());
        if left != 0 {
            if s.kind == PK::MprotectFail || s.kind == PK::UserMunmapFails || s.kind == PK::MprotectFailSecondPage {
                leaked_after_mprotect += 1;
                d = d.b("note_trampoline_left_after_injected_mprotect_failure", true);
            } else if sig.is_empty() {
                sig = "trampoline-left-mapped-after-unwind".into();
            }
        }
        if sig.is_empty() && s.kind == PK::InstallDuringUnwind && obs.unwind_install_saw != 0x7102 {
            sig = "fake-installed-by-a-destructor-during-unwinding-not-in-effect".into();
            d = d.n("the_call_in_the_destructor_returned", obs.unwind_install_saw);
        }
        if sig.is_empty() && !obs.same_thread_again.is_empty() {
            sig = "the-thread-whose-scope-unwound-cannot-get-a-guard-again".into();
            d = d.s("same_thread", &obs.same_thread_again);
        }
        if sig.is_empty() {
            match &waiter_verdict {
                Some(Ok(false)) => sig = "waiting-thread-got-a-guard-that-does-not-work".into(),
                Some(Err(m)) => {
                    sig = "thread-waiting-for-the-guard-panicked-when-the-holder-unwound".into();
                    d = d.s("waiter_panic", m);
                }
                _ => {}
            }
        }
        // (e) the guard is usable: a fresh thread creates an injector, installs, calls, drops; then a preventer
        if sig.is_empty() {
            let (tx, rx) = std::sync::mpsc::channel();
            std::thread::spawn(move || {
                let r = std::panic::catch_unwind(|| {
                    let mut i = InjectorPP::new();
                    i.when_called(injectorpp::func!(fn (r0)() -> i32)).will_execute_raw(injectorpp::func!(fn (fk1)() -> i32));
                    // "use it normally" includes a counted fake from a shared helper
                    shared_counted_fake(&mut i);
                    let a = if r1() == 0x7111 { r0() } else { -1 };
                    drop(i);
                    let b = r0() + (r1() - 0x1101);
                    let p = InjectorPP::prevent();
                    let c = p.is_active();
                    drop(p);
                    (a, b, c)
                });
                let _ = tx.send(r.ok());
            });
            probes += 1;
            match rx.recv_timeout(Duration::from_secs(30)) {
                Ok(Some((0x7101, 0x1100, true))) => {}
                Ok(x) => {
                    sig = "fresh-injector-after-unwind-misbehaves".into();
                    d = d.s("probe", &format!("{:?}", x));
                }
                Err(_) => {
                    sig = "guard-not-released-after-unwind".into();
                    out::outcome(idx, &class, Verdict::Violated, &sig, &d);
                    out::summary(&J::new().n("scripts", idx));
                    std::process::exit(75);
                }
            }
        }
        let v = if sig.is_empty() { Verdict::Held } else { Verdict::Violated };
        out::outcome(idx, &class, v, &sig, &d);
        if v == Verdict::Violated && (sig.contains("restored") || sig.contains("modified") || sig.contains("behaviour")) {
            out::summary(&J::new().n("scripts", idx));
            std::process::exit(75);
        }
    }
    let bm = by_msg.iter().fold(J::new(), |j, (k, v)| j.n(k, *v));
    out::summary(&J::new().n("scripts_total", scripts.len()).o("outcomes_by_panic_class", bm).n("fresh_thread_probes", probes).n("threads_already_waiting_for_the_guard_when_the_holder_unwound", waiters).n("aborts", 0).n("trampolines_left_after_injected_mprotect_failure", leaked_after_mprotect).o("counters", ip::counters_json()));
    let _ = Ordering::SeqCst;
}
