//! C01 — a call to a faked function reaches the fake from every address placement.
//!
//! Case = (region, page offset, protection of the following page, trampoline hole, fake
//! placement, flavour). Behavioural oracle: every call returns the unique id of the fake.
//! Structural oracle: the independent x86 interpreter, started at the target's first byte, arrives
//! at exactly the fake's first byte through a mapping that did not exist before. Failure clause:
//! a panicking install must leave the target untouched.
use super::util::*;
use crate::arena::*;
use crate::interpose as ip;
use crate::out::{self, Verdict, J};
use crate::panicobs;
use crate::rng::Rng;
use crate::x86;
use crate::Ctx;
use injectorpp::interface::injector::*;

#[derive(Clone, Copy, Debug, PartialEq)]
enum Region {
    Lowest,
    Low1M,
    M64,
    Below2G,
    Above2G,
    Below4G,
    Above4G,
    PieLike,
    NearBinary,
    LibLike,
    Top,
}
const REGIONS: [Region; 11] = [
    Region::Lowest,
    Region::Low1M,
    Region::M64,
    Region::Below2G,
    Region::Above2G,
    Region::Below4G,
    Region::Above4G,
    Region::PieLike,
    Region::NearBinary,
    Region::LibLike,
    Region::Top,
];

#[derive(Clone, Copy, Debug, PartialEq)]
enum Hole {
    Natural,
    First,
    Minus64M,
    Minus1Page,
    Plus2Pages,
    Plus64M,
    Last,
    RandomOff(i64),
}

#[derive(Clone, Copy, Debug, PartialEq)]
enum FakeAt {
    /// synthetic fake at trampoline + 5 + d
    Disp(i64),
    /// synthetic fake at an absolute address
    Abs(usize),
    RustFn,
    Closure,
    Macro,
}

#[derive(Clone, Copy, Debug, PartialEq)]
enum Flavour {
    Raw,
    Unchecked,
    Boolean(bool),
}

#[derive(Clone, Debug)]
struct Case {
    region: Region,
    pgoff: usize,
    second_rx: bool,
    hole: Hole,
    fake: FakeAt,
    flavour: Flavour,
}

#[inline(never)]
fn rust_fake_a() -> i32 {
    0x0A0A_0A01
}
#[inline(never)]
fn rust_fake_b() -> i32 {
    0x0B0B_0B02
}
const CLOSURE_ID: i32 = 0x0C0C_0C03;
const MACRO_ID: i32 = 0x0D0D_0D04;

fn region_page(r: Region, salt: u64) -> usize {
    let s = (salt % 64) as usize * 0x10_0000; // spread cases by up to 64 MiB so stale state cannot help
    match r {
        Region::Lowest => lowest_mappable(),
        Region::Low1M => 0x10_0000 + (salt % 16) as usize * PAGE,
        Region::M64 => 0x400_0000 + (salt % 256) as usize * PAGE,
        Region::Below2G => 0x7FFF_0000 - (salt % 8) as usize * 0x1_0000,
        Region::Above2G => 0x8000_0000 + (salt % 8) as usize * 0x1_0000,
        Region::Below4G => 0xFFFF_0000 - (salt % 8) as usize * 0x1_0000,
        Region::Above4G => 0x1_0000_0000 + (salt % 8) as usize * 0x1_0000,
        Region::PieLike => 0x5500_0000_0000 + s,
        Region::NearBinary => {
            let me = rust_fake_a as usize;
            page_floor(me).wrapping_sub(0x3000_0000 + s)
        }
        Region::LibLike => 0x7e00_0000_0000 + s,
        Region::Top => 0x7fff_f000_0000 + (salt % 16) as usize * 0x10_0000,
    }
}

fn straddle(pgoff: usize) -> usize {
    (pgoff + 5).saturating_sub(PAGE)
}

fn hole_addr(h: Hole, target: usize, lowest: usize) -> Option<usize> {
    let first = page_ceil(target.saturating_sub(RANGE)).max(lowest);
    let last = page_floor(target + RANGE);
    let tp = page_floor(target);
    let a = match h {
        Hole::Natural => return None,
        Hole::First => first,
        Hole::Minus64M => tp.checked_sub(0x400_0000)?,
        Hole::Minus1Page => tp.checked_sub(PAGE)?,
        Hole::Plus2Pages => tp + 2 * PAGE,
        Hole::Plus64M => tp + 0x400_0000,
        Hole::Last => last,
        Hole::RandomOff(o) => {
            let v = tp as i64 + o * PAGE as i64;
            if v < 0 {
                return None;
            }
            v as usize
        }
    };
    if a < first || a > last || a < lowest {
        return None;
    }
    Some(a)
}

fn gen_cases(ctx: &Ctx) -> Vec<Case> {
    let mut rng = Rng::new(ctx.seed ^ 0xC01);
    let mut v = Vec::new();
    let pgoffs: [usize; 12] = [0, 1, 0x10, 0x7f3, 0xff0, 0xffa, 0xffb, 0xffc, 0xffd, 0xffe, 0xfff, 0x800];
    // (a) systematic core: every region x every page offset class, natural hole, in-binary fake
    for &r in &REGIONS {
        for &p in &pgoffs {
            for &rx in &[true, false] {
                if straddle(p) == 0 && !rx {
                    continue;
                }
                v.push(Case { region: r, pgoff: p, second_rx: rx, hole: Hole::Natural, fake: FakeAt::RustFn, flavour: Flavour::Raw });
            }
        }
    }
    // (b) rel32 boundary of the trampoline->fake jump, byte-granular, with the trampoline pinned
    let two31: i64 = 1 << 31;
    let disps: Vec<i64> = vec![
        two31 - 1,
        two31 - 2,
        two31 - 16,
        two31,
        two31 + 1,
        two31 + 15,
        -two31,
        -two31 + 1,
        -two31 + 15,
        -two31 - 1,
        -two31 - 2,
        -two31 - 16,
        (PAGE as i64) - 5,
        -21,
        0x10_0000,
        -0x10_0000,
        1 << 33,
        -(1 << 33),
        1 << 40,
        -(1 << 40),
        (1 << 32) - 3,
        -(1 << 32) + 3,
    ];
    for &r in &[Region::M64, Region::Above4G, Region::PieLike, Region::LibLike, Region::Below2G] {
        for &d in &disps {
            for &h in &[Hole::First, Hole::Plus2Pages] {
                v.push(Case { region: r, pgoff: 0x123, second_rx: true, hole: h, fake: FakeAt::Disp(d), flavour: Flavour::Raw });
            }
        }
    }
    // (c) fake at the ends of user space and in every absolute-address class (< 2^31, [2^31, 2^32), just
    // above 2^32): an encoder may key on the absolute address, not on the displacement
    for &r in &[Region::M64, Region::PieLike, Region::Top, Region::Lowest, Region::Above4G, Region::LibLike] {
        for &a in &[0x7fff_ffff_d000usize - 0x10_0000, 0x20_0000usize + 7, 0x7f00_0000usize + 3, 0x8100_0000usize + 1, 0x9000_0000usize, 0xfe00_0000usize + 0x55, 0x1_0200_0000usize + 9] {
            v.push(Case { region: r, pgoff: 0x40, second_rx: true, hole: Hole::Natural, fake: FakeAt::Abs(a), flavour: Flavour::Raw });
        }
    }
    // (d) hole classes x regions
    for &r in &REGIONS {
        for &h in &[Hole::First, Hole::Minus64M, Hole::Minus1Page, Hole::Plus2Pages, Hole::Plus64M, Hole::Last] {
            let fl = *rng.pick(&[Flavour::Raw, Flavour::Unchecked, Flavour::Boolean(true), Flavour::Boolean(false)]);
            let fk = *rng.pick(&[FakeAt::RustFn, FakeAt::Closure, FakeAt::Macro]);
            v.push(Case { region: r, pgoff: *rng.pick(&pgoffs), second_rx: rng.chance(1, 2), hole: h, fake: fk, flavour: fl });
        }
    }
    // (e) flavours x regions, natural
    for &r in &REGIONS {
        for &fl in &[Flavour::Raw, Flavour::Unchecked, Flavour::Boolean(true), Flavour::Boolean(false)] {
            for &fk in &[FakeAt::RustFn, FakeAt::Closure, FakeAt::Macro] {
                if matches!(fl, Flavour::Boolean(_)) && fk != FakeAt::RustFn {
                    continue;
                }
                v.push(Case { region: r, pgoff: *rng.pick(&pgoffs), second_rx: true, hole: Hole::Natural, fake: fk, flavour: fl });
            }
        }
    }
    // (f) random cross product
    let extra = if ctx.n > 0 { ctx.n } else if ctx.thorough { 5000 } else { 60 };
    for _ in 0..extra {
        let r = *rng.pick(&REGIONS);
        let p = if rng.chance(1, 2) { *rng.pick(&pgoffs) } else { rng.below(PAGE as u64) as usize };
        let h = match rng.below(10) {
            0..=2 => Hole::Natural,
            3 => Hole::First,
            4 => Hole::Last,
            5 => Hole::Minus1Page,
            6 => Hole::Plus2Pages,
            _ => Hole::RandomOff(rng.range(-32768, 32768)),
        };
        let fk = match rng.below(8) {
            0 => FakeAt::RustFn,
            1 => FakeAt::Closure,
            2 => FakeAt::Macro,
            3 | 4 => FakeAt::Disp(*rng.pick(&disps)),
            5 => FakeAt::Disp(rng.range(-(1 << 46), 1 << 46)),
            6 => FakeAt::Disp(two31 + rng.range(-64, 64)),
            _ => FakeAt::Disp(-two31 + rng.range(-64, 64)),
        };
        let fl = match rng.below(6) {
            0 => Flavour::Unchecked,
            1 => Flavour::Boolean(rng.chance(1, 2)),
            _ => Flavour::Raw,
        };
        let h = if matches!(fk, FakeAt::Disp(_)) && h == Hole::Natural { Hole::First } else { h };
        v.push(Case { region: r, pgoff: p, second_rx: rng.chance(3, 4), hole: h, fake: fk, flavour: fl });
    }
    v
}

fn class_of(c: &Case) -> String {
    let fk = match c.fake {
        FakeAt::Disp(d) => {
            let two31: i64 = 1 << 31;
            if d >= i32::MIN as i64 && d <= i32::MAX as i64 {
                if (d - (two31 - 1)).abs() < 32 || (d + two31).abs() < 32 {
                    "synth-rel32-edge"
                } else {
                    "synth-rel32"
                }
            } else if (d - two31).abs() < 32 || (d + two31 + 1).abs() < 32 {
                "synth-abs64-edge"
            } else {
                "synth-abs64"
            }
        }
        FakeAt::Abs(_) => "synth-absaddr",
        FakeAt::RustFn => "rustfn",
        FakeAt::Closure => "closure",
        FakeAt::Macro => "fake!",
    };
    let fl = match c.flavour {
        Flavour::Raw => "raw",
        Flavour::Unchecked => "unchecked",
        Flavour::Boolean(_) => "boolean",
    };
    let h = match c.hole {
        Hole::Natural => "natural",
        Hole::First => "first",
        Hole::Minus64M => "-64M",
        Hole::Minus1Page => "-1p",
        Hole::Plus2Pages => "+2p",
        Hole::Plus64M => "+64M",
        Hole::Last => "last",
        Hole::RandomOff(_) => "random",
    };
    format!("{:?}/straddle{}/{}/hole:{}/{}/{}", c.region, straddle(c.pgoff), if c.second_rx { "rx" } else { "rwx" }, h, fk, fl)
}

#[inline(never)]
fn px_target() -> i32 {
    std::hint::black_box(0x4F0)
}
#[inline(never)]
fn px_fake() -> i32 {
    std::hint::black_box(0x4F1)
}

pub fn run(ctx: &Ctx) {
    let cases = gen_cases(ctx);
    let lowest = hint_floor();
    let mut decided = 0u64;
    let mut refused = 0u64;
    let mut skipped = 0u64;
    let mut forms: std::collections::BTreeMap<String, u64> = std::collections::BTreeMap::new();
    let mut words: std::collections::BTreeSet<Vec<u8>> = std::collections::BTreeSet::new();
    for (idx, c) in cases.iter().enumerate() {
        let idx = idx as u64;
        if !ctx.mine(idx) {
            continue;
        }
        let class = class_of(c);
        let desc = J::new()
            .s("case", &format!("{:?}", c))
            .s("crash_sig", &format!("straddle{}:{}", straddle(c.pgoff), if c.second_rx { "rx" } else { "rwx" }));
        out::intent(idx, &class, &desc);
        let (v, sig, detail) = one(ctx, idx, c, lowest, &mut forms, &mut words, &mut refused);
        match v {
            Verdict::Inconclusive => skipped += 1,
            _ => decided += 1,
        }
        out::outcome(idx, &class, v, &sig, &detail);
    }
    // --- the async poll path: the target is the real `poll` of an async fn's future inside this binary;
    // exercised at its natural placement and with the binary's own neighbourhood reserved except one hole
    let base_idx = cases.len() as u64;
    let async_cases: Vec<(usize, Hole)> = (0..3usize).flat_map(|k| [Hole::Natural, Hole::First, Hole::Minus64M, Hole::Plus64M, Hole::Last].into_iter().map(move |h| (k, h))).collect();
    for (j, (k, h)) in async_cases.iter().enumerate() {
        let idx = base_idx + j as u64;
        if !ctx.mine(idx) {
            continue;
        }
        let class = format!("binary-text/async-poll{}/hole:{:?}", k, h);
        out::intent(idx, &class, &J::new().s("crash_sig", "async-poll"));
        let (v, sig, detail) = one_async(*k, *h, lowest, &mut forms, &mut refused);
        match v {
            Verdict::Inconclusive => skipped += 1,
            _ => decided += 1,
        }
        out::outcome(idx, &class, v, &sig, &detail);
    }
    // --- process-level events between two installations: whatever the library remembers across installations
    // (descriptors, addresses, page states) must survive them or be re-established
    let sp = base_idx + async_cases.len() as u64;
    let warm = || {
        let mut i = InjectorPP::new();
        i.when_called(injectorpp::func!(fn (px_target)() -> i32)).will_execute_raw(injectorpp::func!(fn (px_fake)() -> i32));
        let v = px_target();
        drop(i);
        v == 0x4F1 && px_target() == 0x4F0
    };
    if ctx.mine(sp) {
        let class = "process-events/fork-then-install-in-the-child".to_string();
        out::intent(sp, &class, &J::new().s("crash_sig", "fork"));
        let ok0 = warm();
        let img0 = bytes_at(px_target as usize, 16);
        let pid = unsafe { libc::fork() };
        if pid == 0 {
            // the child (single-threaded: this scenario starts no threads): its own installation must work here
            let r = std::panic::catch_unwind(|| {
                let mut i = InjectorPP::new();
                i.when_called(injectorpp::func!(fn (px_target)() -> i32)).will_execute_raw(injectorpp::func!(fn (px_fake)() -> i32));
                let v = px_target();
                drop(i);
                (v, px_target())
            });
            let code = match r {
                Ok((0x4F1, 0x4F0)) => 0,
                Ok((0x4F1, _)) => 5,
                Ok(_) => 3,
                Err(_) => 4,
            };
            unsafe { libc::_exit(code) };
        }
        let mut status = 0i32;
        let wr = if pid > 0 { unsafe { libc::waitpid(pid, &mut status, 0) } } else { -1 };
        let parent_same = bytes_at(px_target as usize, 16) == img0 && px_target() == 0x4F0;
        let d = J::new().n("child_wait_status", status).b("parent_unchanged", parent_same);
        if pid < 0 || wr < 0 || !ok0 {
            out::outcome(sp, &class, Verdict::Inconclusive, "could-not-fork-or-warm-up", &d);
        } else if !parent_same {
            out::outcome(sp, &class, Verdict::Violated, "installation-in-a-forked-child-changed-the-parent", &d);
        } else if libc::WIFEXITED(status) && libc::WEXITSTATUS(status) == 0 {
            decided += 1;
            out::outcome(sp, &class, Verdict::Held, "", &d);
        } else {
            let sig = if libc::WIFEXITED(status) { match libc::WEXITSTATUS(status) { 3 => "fake-not-in-effect-in-a-forked-child", 5 => "original-not-back-in-a-forked-child", _ => "installation-in-a-forked-child-panicked" } } else { "forked-child-crashed-while-faking" };
            out::outcome(sp, &class, Verdict::Violated, sig, &d);
        }
    }
    if ctx.mine(sp + 1) {
        let class = "process-events/descriptors-closed-and-reused-between-installations".to_string();
        out::intent(sp + 1, &class, &J::new().s("crash_sig", "fd-recycling"));
        let ok0 = warm();
        // what a daemonising or sandboxing test does: close every descriptor above stderr (except the case log),
        // then open a few files, which re-uses the numbers
        let mut closed = 0u64;
        let keep = out::fd();
        for fd in 3..256 {
            if fd != keep && unsafe { libc::fcntl(fd, libc::F_GETFD) } >= 0 {
                unsafe { libc::close(fd) };
                closed += 1;
            }
        }
        let devnull = std::ffi::CString::new("/dev/null").unwrap();
        let opened: Vec<i32> = (0..8).map(|_| unsafe { libc::open(devnull.as_ptr(), libc::O_RDWR) }).collect();
        let img0 = bytes_at(px_target as usize, 16);
        let r = std::panic::catch_unwind(|| {
            let mut i = InjectorPP::new();
            i.when_called(injectorpp::func!(fn (px_target)() -> i32)).will_execute_raw(injectorpp::func!(fn (px_fake)() -> i32));
            let v = px_target();
            drop(i);
            (v, px_target())
        });
        let same = bytes_at(px_target as usize, 16) == img0;
        for fd in opened {
            if fd >= 0 {
                unsafe { libc::close(fd) };
            }
        }
        let d = J::new().n("descriptors_closed", closed).s("second_installation", &format!("{:?}", r.as_ref().map_err(|_| "panicked")));
        let sig = match r {
            _ if !ok0 => "",
            Ok((0x4F1, 0x4F0)) if same => "",
            Ok((0x4F1, _)) => "original-not-back-after-descriptors-were-recycled",
            Ok(_) => "fake-not-in-effect-after-descriptors-were-recycled",
            Err(_) => "",
        };
        if !ok0 {
            out::outcome(sp + 1, &class, Verdict::Inconclusive, "could-not-warm-up", &d);
        } else {
            decided += 1;
            // (a loud refusal is what C01 allows)
            out::outcome(sp + 1, &class, if sig.is_empty() { Verdict::Held } else { Verdict::Violated }, sig, &d);
        }
    }
    let forms_j = forms.iter().fold(J::new(), |j, (k, v)| j.n(k, *v));
    out::summary(
        &J::new()
            .n("cases_total", cases.len())
            .n("decided", decided)
            .n("refused_installs", refused)
            .n("inconclusive", skipped)
            .x("lowest_mappable", lowest)
            .o("forms", forms_j)
            .n("distinct_instruction_words", words.len())
            .o("counters", ip::counters_json()),
    );
}

fn one(
    _ctx: &Ctx,
    idx: u64,
    c: &Case,
    lowest: usize,
    forms: &mut std::collections::BTreeMap<String, u64>,
    words: &mut std::collections::BTreeSet<Vec<u8>>,
    refused: &mut u64,
) -> (Verdict, String, J) {
    let orig_id: u32 = 0x5000_0000 | (idx as u32 & 0xFFFFF);
    let fake_id: u32 = 0x6000_0000 | (idx as u32 & 0xFFFFF);
    // --- the target
    let mut page = region_page(c.region, idx);
    let second = if c.second_rx { RX } else { RWX };
    let mut t = None;
    for _ in 0..8 {
        if crate::maps::is_free(page, 2 * PAGE) {
            t = SynthTarget::new(page, c.pgoff, orig_id, second);
            if t.is_some() {
                break;
            }
        }
        page += 16 * PAGE;
    }
    let t = match t {
        Some(t) => t,
        None => return (Verdict::Inconclusive, "skip:target-unmappable".into(), J::new().x("page", page)),
    };
    if t.call() != orig_id as i32 {
        return (Verdict::Inconclusive, "skip:target-selfcheck".into(), J::new());
    }
    // --- the trampoline hole
    let hole = match c.hole {
        Hole::Natural => None,
        h => match hole_addr(h, t.addr, lowest) {
            Some(a) => Some(a),
            None => return (Verdict::Inconclusive, "skip:hole-out-of-window".into(), J::new()),
        },
    };
    // where will the trampoline go if we do not force it? first free page from the start of the window
    let predicted = match hole {
        Some(h) => h,
        None => {
            let first = page_ceil(t.addr.saturating_sub(RANGE)).max(PAGE);
            let gaps = crate::maps::gaps(first, page_floor(t.addr + RANGE) + PAGE);
            match gaps.first() {
                Some(g) => g.0,
                None => return (Verdict::Inconclusive, "skip:no-gap".into(), J::new()),
            }
        }
    };
    if let Some(h) = hole {
        if !crate::maps::is_free(h, PAGE) {
            return (Verdict::Inconclusive, "skip:hole-occupied".into(), J::new().x("hole", h));
        }
    }
    // --- the fake
    let mut synth_fake = None;
    let fake_addr: usize;
    let expect: i32;
    match c.fake {
        FakeAt::Disp(d) => {
            let a = predicted as i128 + 5 + d as i128;
            if a < PAGE as i128 || a > 0x7fff_ffff_e000i128 {
                return (Verdict::Inconclusive, "skip:fake-outside-user-space".into(), J::new());
            }
            let a = a as usize;
            if page_floor(a) == predicted || (page_floor(a + 6) == predicted) {
                return (Verdict::Inconclusive, "skip:fake-on-trampoline-page".into(), J::new());
            }
            match SynthFake::new(a, fake_id) {
                Some(f) => {
                    fake_addr = f.addr;
                    synth_fake = Some(f);
                    expect = fake_id as i32;
                }
                None => return (Verdict::Inconclusive, "skip:fake-unmappable".into(), J::new().x("fake", a)),
            }
        }
        FakeAt::Abs(a) => match SynthFake::new(a + (idx as usize % 64) * 0x2000, fake_id) {
            Some(f) => {
                fake_addr = f.addr;
                synth_fake = Some(f);
                expect = fake_id as i32;
            }
            None => return (Verdict::Inconclusive, "skip:fake-unmappable".into(), J::new().x("fake", a)),
        },
        FakeAt::RustFn => {
            let f: fn() -> i32 = if idx % 2 == 0 { rust_fake_a } else { rust_fake_b };
            fake_addr = f as usize;
            expect = f();
        }
        FakeAt::Closure => {
            fake_addr = 0;
            expect = CLOSURE_ID;
        }
        FakeAt::Macro => {
            fake_addr = 0;
            expect = MACRO_ID;
        }
    }
    let _keep = &synth_fake;
    // --- shape the neighbourhood
    let resv = hole.map(|h| {
        let lo = t.addr.saturating_sub(RANGE + 16 * PAGE).max(lowest);
        let hi = (t.addr + RANGE + 16 * PAGE).min(0x7fff_ffff_f000);
        Reservation::reserve(lo, hi, &[(h, h + PAGE)])
    });
    // --- install
    let ledger_before = ip::ledger_snapshot();
    let m0 = ip::mark();
    let mut fake_addr_seen = fake_addr;
    let (res, msgs) = panicobs::observe(|| {
        let mut inj = ip::lib(InjectorPP::new);
        ip::lib(|| match c.flavour {
            Flavour::Raw => match c.fake {
                FakeAt::Disp(_) | FakeAt::Abs(_) => inj.when_called(fp(t.addr, SIG_I32)).will_execute_raw(fp(fake_addr, SIG_I32)),
                FakeAt::RustFn => {
                    if idx % 2 == 0 {
                        inj.when_called(fp(t.addr, SIG_I32)).will_execute_raw(injectorpp::func!(fn (rust_fake_a)() -> i32))
                    } else {
                        inj.when_called(fp(t.addr, SIG_I32)).will_execute_raw(injectorpp::func!(fn (rust_fake_b)() -> i32))
                    }
                }
                FakeAt::Closure => inj
                    .when_called(fp(t.addr, SIG_I32))
                    .will_execute_raw(injectorpp::closure!(|| -> i32 { CLOSURE_ID }, fn() -> i32)),
                FakeAt::Macro => inj.when_called(fp(t.addr, SIG_I32)).will_execute(injectorpp::fake!(
                    func_type: fn() -> i32,
                    returns: MACRO_ID
                )),
            },
            Flavour::Unchecked => unsafe {
                let fa = match c.fake {
                    FakeAt::Disp(_) | FakeAt::Abs(_) | FakeAt::RustFn => fake_addr,
                    _ => rust_fake_a as usize,
                };
                inj.when_called_unchecked(fp(t.addr, "")).will_execute_raw_unchecked(fp(fa, ""))
            },
            Flavour::Boolean(b) => inj.when_called(fp(t.addr, SIG_BOOL)).will_return_boolean(b),
        });
        inj
    });
    let expect = match c.flavour {
        Flavour::Boolean(b) => b as i32,
        Flavour::Unchecked => match c.fake {
            FakeAt::Closure | FakeAt::Macro => {
                fake_addr_seen = rust_fake_a as usize;
                rust_fake_a()
            }
            _ => expect,
        },
        _ => expect,
    };
    drop(resv);
    let new_maps = new_lib_mappings(&ledger_before);
    let mut detail = J::new()
        .x("target", t.addr)
        .x("fake", fake_addr_seen)
        .x("predicted_trampoline", predicted)
        .s("new_lib_mappings", &format!("{:x?}", new_maps));
    let inj = match res {
        Err(msg) => {
            // failure clause: loud, and nothing touched
            *refused += 1;
            let intact = t.intact();
            let back = t.call();
            let leaked = new_maps.len();
            detail = detail.s("panic", &msg).b("intact", intact).n("call_after_refusal", back).n("panics", msgs.len());
            if !intact || back != orig_id as i32 {
                return (Verdict::Violated, "refused-install-modified-target".into(), detail);
            }
            if leaked != 0 {
                detail = detail.n("mappings_left_after_refusal", leaked);
            }
            *forms.entry("refused".into()).or_insert(0) += 1;
            return (Verdict::Held, "".into(), detail);
        }
        Ok(inj) => inj,
    };
    // --- behavioural oracle: installing thread, then three others
    let mut got = Vec::new();
    got.push(t.call() as i64);
    let fptr: Fn0 = unsafe { std::mem::transmute(t.addr) };
    got.push(unsafe { fptr() } as i64);
    let taddr = t.addr;
    let hs: Vec<_> = (0..3)
        .map(|_| {
            std::thread::spawn(move || {
                let a = unsafe { call0(taddr) } as i64;
                let b = unsafe { call0(taddr) } as i64;
                (a, b)
            })
        })
        .collect();
    for h in hs {
        match h.join() {
            Ok((a, b)) => {
                got.push(a);
                got.push(b);
            }
            Err(_) => got.push(-1),
        }
    }
    let mask = |x: i64| if matches!(c.flavour, Flavour::Boolean(_)) { x & 0xff } else { x };
    let behav_ok = got.iter().all(|&g| mask(g) == expect as i64);
    // --- structural oracle
    let reader = live_reader();
    let want = if matches!(c.flavour, Flavour::Boolean(_)) { usize::MAX } else { fake_addr_seen };
    let in_binary_unknown = want == 0;
    let me = rust_fake_a as usize;
    let text = crate::maps::parse().into_iter().find(|m| m.x() && me >= m.start && me < m.end).map(|m| (m.start, m.end));
    let walk = Some(if in_binary_unknown {
        x86::follow_ex(t.addr, usize::MAX - 1, &reader, text)
    } else {
        x86::follow(t.addr, want, &reader)
    });
    let mut struct_verdict = "n/a".to_string();
    let mut struct_bad = false;
    let mut entry_form = "?".to_string();
    if let Some(w) = &walk {
        for wd in &w.words {
            words.insert(wd.clone());
        }
        let via: Vec<usize> = w.path.iter().map(|p| p.0).collect();
        let through_new = via.iter().skip(1).any(|a| new_maps.iter().any(|(s, l)| *a >= *s && *a < *s + *l));
        entry_form = match w.words.first() {
            Some(b) if b[0] == 0xE9 => "entry5".into(),
            Some(b) if b.len() == 10 => "entry12".into(),
            _ => "entry?".into(),
        };
        let tramp_form = if w.words.len() >= 2 {
            match &w.words[1] {
                b if b[0] == 0xE9 => "tramp-rel32",
                b if b.len() == 10 => "tramp-abs64",
                b if b.len() == 7 => "tramp-bool",
                _ => "tramp-?",
            }
        } else {
            "tramp-none"
        };
        *forms.entry(format!("{}+{}", entry_form, tramp_form)).or_insert(0) += 1;
        match &w.end {
            x86::End::Landed => {
                struct_verdict = "landed".into();
                if !through_new {
                    struct_verdict = "landed-not-through-new-mapping".into();
                    struct_bad = true;
                }
            }
            x86::End::Ret { rax, .. } => {
                if let Flavour::Boolean(b) = c.flavour {
                    if rax.map(|r| r & 0xff) == Some(b as u64) {
                        struct_verdict = "bool-stub".into();
                    } else {
                        struct_verdict = format!("bool-stub-wrong-value:{:?}", rax);
                        struct_bad = true;
                    }
                } else {
                    struct_verdict = "returned-before-fake".into();
                    struct_bad = true;
                }
            }
            x86::End::Stopped { at } | x86::End::Unknown { at, .. } if in_binary_unknown => {
                // closure / fake! output: its address is not known to the harness; accept a stop at a
                // function prologue inside the harness binary's own text, reached via the new mapping
                let me = rust_fake_a as usize;
                let in_text = crate::maps::parse().iter().any(|m| m.x() && me >= m.start && me < m.end && *at >= m.start && *at < m.end);
                if in_text && through_new && w.path.len() >= 2 {
                    struct_verdict = "landed-in-binary-text".into();
                } else {
                    struct_verdict = format!("stopped-outside-binary-0x{:x}", at);
                    struct_bad = true;
                }
            }
            x86::End::Stopped { at } => {
                struct_verdict = format!("stopped-at-0x{:x}", at);
                struct_bad = true;
            }
            x86::End::Unmapped { at } => {
                struct_verdict = format!("branch-to-unmapped-0x{:x}", at);
                struct_bad = true;
            }
            x86::End::Unknown { at, bytes } => {
                struct_verdict = format!("unknown-encoding@0x{:x}:{}", at, out::hex(bytes));
            }
            x86::End::Loop => {
                struct_verdict = "loop".into();
                struct_bad = true;
            }
        }
        detail = detail.s("path", &format!("{:x?}", w.path));
    }
    let _ = entry_form;
    // trampoline within reach?
    let mut reach_bad = false;
    for (a, _) in &new_maps {
        if a.abs_diff(t.addr) > RANGE {
            reach_bad = true;
        }
    }
    let tramp_pred_ok = new_maps.iter().any(|(a, _)| *a == predicted);
    // --- drop and check the target came back (C02's business; recorded, not judged here)
    let (dres, _) = panicobs::observe(|| ip::lib(|| drop(inj)));
    let restored = t.intact() && t.call() == orig_id as i32;
    let ev = ip::since(m0);
    detail = detail
        .s("calls", &format!("{:x?}", got))
        .n("expect", expect)
        .s("structural", &struct_verdict)
        .b("trampoline_where_predicted", tramp_pred_ok)
        .b("restored_after_drop", restored && dres.is_ok())
        .n("events", ev.map(|e| e.len() as i64).unwrap_or(-1));
    if !behav_ok {
        return (Verdict::Violated, format!("call-did-not-reach-fake:{}", struct_verdict.split('@').next().unwrap_or("")), detail);
    }
    if struct_bad {
        return (Verdict::Violated, format!("structural:{}", struct_verdict.split(':').next().unwrap_or("")), detail);
    }
    if reach_bad {
        return (Verdict::Violated, "trampoline-out-of-reach".into(), detail);
    }
    if matches!(c.fake, FakeAt::Disp(_)) && !tramp_pred_ok {
        // the displacement we meant to test was not the one exercised; behaviour was still right
        return (Verdict::Held, "".into(), detail.b("note_displacement_not_as_planned", true));
    }
    (Verdict::Held, "".into(), detail)
}


fn one_async(k: usize, hole: Hole, lowest: usize, forms: &mut std::collections::BTreeMap<String, u64>, refused: &mut u64) -> (Verdict, String, J) {
    use super::pool::{a0, a1, a2, block_on, poll_addr};
    let taddr = match k {
        0 => poll_addr(&a0(0)),
        1 => poll_addr(&a1(0)),
        _ => poll_addr(&a2("")),
    };
    let call = |k: usize| -> i64 {
        match k {
            0 => block_on(a0(5)).0 as i64,
            1 => block_on(a1(5)).0 as i64,
            _ => block_on(a2("x")).0.len() as i64,
        }
    };
    let orig = [6i64, 7, 6][k];
    if call(k) != orig {
        return (Verdict::Inconclusive, "skip:async-selfcheck".into(), J::new());
    }
    let image = bytes_at(taddr, 16);
    let holea = match hole {
        Hole::Natural => None,
        h => match hole_addr(h, taddr, lowest) {
            Some(a) if crate::maps::is_free(a, PAGE) => Some(a),
            _ => return (Verdict::Inconclusive, "skip:hole-occupied".into(), J::new()),
        },
    };
    let resv = holea.map(|h| {
        let lo = taddr.saturating_sub(RANGE + 16 * PAGE).max(lowest);
        let hi = (taddr + RANGE + 16 * PAGE).min(0x7fff_ffff_f000);
        Reservation::reserve(lo, hi, &[(h, h + PAGE)])
    });
    let led0 = ip::ledger_snapshot();
    let (res, _msgs) = panicobs::observe(|| {
        let mut inj = ip::lib(InjectorPP::new);
        ip::lib(|| match k {
            0 => inj.when_called_async(injectorpp::async_func!(a0(0), u32)).will_return_async(injectorpp::async_return!(0x7E57, u32)),
            1 => unsafe { inj.when_called_async_unchecked(injectorpp::async_func_unchecked!(a1(0))).will_return_async_unchecked(injectorpp::async_return_unchecked!(0x7E58, u32)) },
            _ => inj.when_called_async(injectorpp::async_func!(a2(""), String)).will_return_async(injectorpp::async_return!("twelve chars".to_string(), String)),
        });
        inj
    });
    drop(resv);
    let new_maps = new_lib_mappings(&led0);
    let mut d = J::new().x("poll_fn", taddr).s("new_lib_mappings", &format!("{:x?}", new_maps));
    let inj = match res {
        Err(m) => {
            *refused += 1;
            d = d.s("panic", &m);
            if bytes_at(taddr, 16) != image || call(k) != orig {
                return (Verdict::Violated, "refused-install-modified-target".into(), d);
            }
            return (Verdict::Held, String::new(), d);
        }
        Ok(i) => i,
    };
    let want = [0x7E57i64, 0x7E58, 12][k];
    let mut got = vec![call(k), call(k)];
    let hs: Vec<_> = (0..3).map(|_| std::thread::spawn(move || match k {
        0 => block_on(a0(9)).0 as i64,
        1 => block_on(a1(9)).0 as i64,
        _ => block_on(a2("yy")).0.len() as i64,
    })).collect();
    for h in hs {
        got.push(h.join().unwrap_or(-1));
    }
    let me = rust_fake_a as usize;
    let text = crate::maps::parse().into_iter().find(|m| m.x() && me >= m.start && me < m.end).map(|m| (m.start, m.end));
    let reader = live_reader();
    // the poll function itself lies in the binary's text: stop when control comes BACK into the text
    // after having left it
    let w = x86::follow_ex(taddr, usize::MAX - 1, &reader, None);
    let through_new = w.path.iter().skip(1).any(|(a, _)| new_maps.iter().any(|(s0, l)| *a >= *s0 && *a < *s0 + *l));
    let lens: Vec<String> = w.words.iter().map(|x| x.len().to_string()).collect();
    *forms.entry(format!("async:{}", lens.join("+"))).or_insert(0) += 1;
    let landed_in_text = match &w.end {
        x86::End::Stopped { at } | x86::End::Unknown { at, .. } => text.map(|(a, b)| *at >= a && *at < b).unwrap_or(false),
        x86::End::Ret { .. } => true, // a tiny generated poll fn may be fully decodable (mov/ret)
        _ => false,
    };
    d = d.s("path", &format!("{:x?}", w.path)).s("awaits", &format!("{:x?}", got));
    let reach_ok = new_maps.iter().all(|(a, _)| a.abs_diff(taddr) <= RANGE);
    let (dres, _) = panicobs::observe(|| ip::lib(|| drop(inj)));
    let restored = bytes_at(taddr, 16) == image && call(k) == orig && dres.is_ok();
    d = d.b("restored_after_drop", restored);
    if got.iter().any(|g| *g != want) {
        return (Verdict::Violated, "await-did-not-reach-the-fake".into(), d);
    }
    if !through_new || !landed_in_text {
        return (Verdict::Violated, "structural:async-entry-does-not-lead-through-the-trampoline-into-the-binary".into(), d);
    }
    if !reach_ok {
        return (Verdict::Violated, "trampoline-out-of-reach".into(), d);
    }
    (Verdict::Held, String::new(), d)
}
