//! C09 — type-checked installation refuses every structurally different signature;
//! the gate half of C10 — forcing a boolean is accepted only for functions returning `bool`.
//!
//! A family of function-pointer types around a base type, each member differing from the base in
//! exactly one respect. Structural difference is known by construction (the `class` number), never
//! from `type_name`. Every ordered pair is pushed through every macro form that carries a type.
use super::util::*;
use crate::interpose as ip;
use crate::out::{self, Verdict, J};
use crate::panicobs;
use crate::Ctx;
use injectorpp::interface::injector::*;

/// One member of the family: class id (equal ids = structurally identical types), label, whether
/// it is only a lifetime re-spelling of another member, address of its target function, and
/// constructors of FuncPtr through the different macro forms.
pub struct Member {
    pub class: u32,
    pub label: &'static str,
    pub lifetime_variant: bool,
    pub target_addr: usize,
    /// (form name, constructor) for use as a TARGET
    pub as_target: Vec<(&'static str, Box<dyn Fn() -> FuncPtr>)>,
    /// (form name, constructor) for use as a REPLACEMENT through will_execute_raw
    pub as_repl: Vec<(&'static str, Box<dyn Fn() -> FuncPtr>)>,
    /// replacement through will_execute (fake!)
    pub as_fake: Vec<(&'static str, Box<dyn Fn() -> (FuncPtr, CallCountVerifier)>)>,
}

/// types whose names differ only in their module path
pub mod ma {
    #[derive(Clone, Copy)]
    pub struct Rs(pub i64);
    pub struct Cfg(pub u8);
}
pub mod mb {
    #[derive(Clone, Copy)]
    pub struct Rs(pub i64);
    pub struct Cfg(pub u8);
}

/// a type with a `char` const-generic argument: its name contains apostrophes, like a lifetime does
#[derive(Clone, Copy)]
pub struct Qty<const U: char>(pub i64);
/// long type names that differ only in the middle (element 20 of 40)
pub type LongA = ((u64, u64, u64, u64, u64, u64, u64, u64, u64, u64), (u64, u64, u64, u64, u64, u64, u64, u64, u64, u64), (u32, u64, u64, u64, u64, u64, u64, u64, u64, u64), (u64, u64, u64, u64, u64, u64, u64, u64, u64, u64));
pub type LongB = ((u64, u64, u64, u64, u64, u64, u64, u64, u64, u64), (u64, u64, u64, u64, u64, u64, u64, u64, u64, u64), (i32, u64, u64, u64, u64, u64, u64, u64, u64, u64), (u64, u64, u64, u64, u64, u64, u64, u64, u64, u64));

macro_rules! plain_member {
    ($v:ident, $class:expr, $label:expr, $lt:expr, $tgt:ident, $rep:ident, ($($an:ident : $at:ty),*) -> $ret:ty, $tv:expr, $rv:expr, $cl:expr) => {{
        #[inline(never)]
        fn $tgt($($an: $at),*) -> $ret { $(let _ = &$an;)* std::hint::black_box($tv) }
        #[inline(never)]
        fn $rep($($an: $at),*) -> $ret { $(let _ = &$an;)* std::hint::black_box($rv) }
        $v.push(Member {
            class: $class, label: $label, lifetime_variant: $lt, target_addr: $tgt as usize,
            as_target: vec![
                ("func!(f, ty)", Box::new(|| injectorpp::func!($tgt, fn($($at),*) -> $ret))),
                ("func!(fn (f)(..) -> r)", Box::new(|| injectorpp::func!(fn ($tgt)($($at),*) -> $ret))),
                ("func!(func_info: ..)", Box::new(|| injectorpp::func!(func_info: fn ($tgt)($($at),*) -> $ret))),
            ],
            as_repl: vec![
                ("func!(f, ty)", Box::new(|| injectorpp::func!($rep, fn($($at),*) -> $ret))),
                ("func!(fn (f)(..) -> r)", Box::new(|| injectorpp::func!(fn ($rep)($($at),*) -> $ret))),
                ("closure!", Box::new(|| injectorpp::closure!($cl, fn($($at),*) -> $ret))),
            ],
            as_fake: vec![
                ("fake!(returns)", Box::new(|| injectorpp::fake!(func_type: fn($($an: $at),*) -> $ret, returns: $rv))),
                ("fake!(returns,times)", Box::new(|| injectorpp::fake!(func_type: fn($($an: $at),*) -> $ret, returns: $rv, times: 0))),
            ],
        });
    }};
}

pub fn family() -> Vec<Member> {
    let mut v: Vec<Member> = Vec::new();
    // 0: the base type
    plain_member!(v, 0, "fn(i32, &u8) -> i64", false, t0, r0, (a: i32, b: &u8) -> i64, 1000, 2000, |_a: i32, _b: &u8| -> i64 { 2000 });
    // one parameter fewer / more
    plain_member!(v, 1, "fn(i32) -> i64", false, t1, r1, (a: i32) -> i64, 1001, 2001, |_a: i32| -> i64 { 2001 });
    plain_member!(v, 2, "fn(i32, &u8, i32) -> i64", false, t2, r2, (a: i32, b: &u8, c: i32) -> i64, 1002, 2002, |_a: i32, _b: &u8, _c: i32| -> i64 { 2002 });
    // one parameter type
    plain_member!(v, 3, "fn(u32, &u8) -> i64", false, t3, r3, (a: u32, b: &u8) -> i64, 1003, 2003, |_a: u32, _b: &u8| -> i64 { 2003 });
    plain_member!(v, 4, "fn(i32, &u16) -> i64", false, t4, r4, (a: i32, b: &u16) -> i64, 1004, 2004, |_a: i32, _b: &u16| -> i64 { 2004 });
    plain_member!(v, 5, "fn(i64, &u8) -> i64", false, t5, r5, (a: i64, b: &u8) -> i64, 1005, 2005, |_a: i64, _b: &u8| -> i64 { 2005 });
    plain_member!(v, 6, "fn(i32, u8) -> i64", false, t6, r6, (a: i32, b: u8) -> i64, 1006, 2006, |_a: i32, _b: u8| -> i64 { 2006 });
    // return type
    plain_member!(v, 7, "fn(i32, &u8) -> i32", false, t7, r7, (a: i32, b: &u8) -> i32, 1007, 2007, |_a: i32, _b: &u8| -> i32 { 2007 });
    plain_member!(v, 8, "fn(i32, &u8) -> u64", false, t8, r8, (a: i32, b: &u8) -> u64, 1008, 2008, |_a: i32, _b: &u8| -> u64 { 2008 });
    plain_member!(v, 9, "fn(i32, &u8) -> bool", false, t9, r9, (a: i32, b: &u8) -> bool, false, true, |_a: i32, _b: &u8| -> bool { true });
    plain_member!(v, 10, "fn(i32, &u8) -> Option<i64>", false, t10, r10, (a: i32, b: &u8) -> Option<i64>, Some(1010), Some(2010), |_a: i32, _b: &u8| -> Option<i64> { Some(2010) });
    // reference mutability / raw pointer
    plain_member!(v, 11, "fn(i32, &mut u8) -> i64", false, t11, r11, (a: i32, b: &mut u8) -> i64, 1011, 2011, |_a: i32, _b: &mut u8| -> i64 { 2011 });
    plain_member!(v, 12, "fn(i32, *const u8) -> i64", false, t12, r12, (a: i32, b: *const u8) -> i64, 1012, 2012, |_a: i32, _b: *const u8| -> i64 { 2012 });
    plain_member!(v, 13, "fn(i32, *mut u8) -> i64", false, t13, r13, (a: i32, b: *mut u8) -> i64, 1013, 2013, |_a: i32, _b: *mut u8| -> i64 { 2013 });
    // parameter order
    plain_member!(v, 14, "fn(&u8, i32) -> i64", false, t14, r14, (a: &u8, b: i32) -> i64, 1014, 2014, |_a: &u8, _b: i32| -> i64 { 2014 });
    // nested fn types in the signature
    plain_member!(v, 15, "fn(i32, fn(&u8) -> i64) -> i64", false, t15, r15, (a: i32, b: fn(&u8) -> i64) -> i64, 1015, 2015, |_a: i32, _b: fn(&u8) -> i64| -> i64 { 2015 });
    plain_member!(v, 16, "fn(i32, &u8) -> fn(i32) -> i64", false, t16, r16, (a: i32, b: &u8) -> fn(i32) -> i64, (|_x: i32| -> i64 { 1016 }) as fn(i32) -> i64, (|_x: i32| -> i64 { 2016 }) as fn(i32) -> i64, |_a: i32, _b: &u8| -> fn(i32) -> i64 { |_x: i32| -> i64 { 2016 } });
    // same final identifier, different module path: different types
    plain_member!(v, 24, "fn(i32, &u8) -> ma::Rs", false, t24, r24, (a: i32, b: &u8) -> ma::Rs, ma::Rs(1024), ma::Rs(2024), |_a: i32, _b: &u8| -> ma::Rs { ma::Rs(2024) });
    plain_member!(v, 25, "fn(i32, &u8) -> mb::Rs", false, t25, r25, (a: i32, b: &u8) -> mb::Rs, mb::Rs(1025), mb::Rs(2025), |_a: i32, _b: &u8| -> mb::Rs { mb::Rs(2025) });
    plain_member!(v, 26, "fn(i32, &ma::Cfg) -> i64", false, t26, r26, (a: i32, b: &ma::Cfg) -> i64, 1026, 2026, |_a: i32, _b: &ma::Cfg| -> i64 { 2026 });
    plain_member!(v, 27, "fn(i32, &mb::Cfg) -> i64", false, t27, r27, (a: i32, b: &mb::Cfg) -> i64, 1027, 2027, |_a: i32, _b: &mb::Cfg| -> i64 { 2027 });
    plain_member!(v, 28, "fn(i32, &u8) -> std::fmt::Result", false, t28, r28, (a: i32, b: &u8) -> std::fmt::Result, Ok(()), Err(std::fmt::Error), |_a: i32, _b: &u8| -> std::fmt::Result { Err(std::fmt::Error) });
    plain_member!(v, 29, "fn(i32, &u8) -> std::io::Result<()>", false, t29, r29, (a: i32, b: &u8) -> std::io::Result<()>, Ok(()), Ok(()), |_a: i32, _b: &u8| -> std::io::Result<()> { Ok(()) });
    // types that differ only inside a `char` const-generic argument (spelled with apostrophes in the type name)
    plain_member!(v, 30, "fn(i32, &u8) -> Qty<'m'>", false, t30, r30, (a: i32, b: &u8) -> Qty<'m'>, Qty::<'m'>(1030), Qty::<'m'>(2030), |_a: i32, _b: &u8| -> Qty<'m'> { Qty::<'m'>(2030) });
    plain_member!(v, 31, "fn(i32, &u8) -> Qty<'s'>", false, t31, r31, (a: i32, b: &u8) -> Qty<'s'>, Qty::<'s'>(1031), Qty::<'s'>(2031), |_a: i32, _b: &u8| -> Qty<'s'> { Qty::<'s'>(2031) });
    // very long type names (> 400 bytes) that differ only in the middle
    plain_member!(v, 32, "fn(i32, &LongA) -> i64", false, t32, r32, (a: i32, b: &LongA) -> i64, 1032, 2032, |_a: i32, _b: &LongA| -> i64 { 2032 });
    plain_member!(v, 33, "fn(i32, &LongB) -> i64", false, t33, r33, (a: i32, b: &LongB) -> i64, 1033, 2033, |_a: i32, _b: &LongB| -> i64 { 2033 });
    // lifetime re-spellings of the base (same structure; exercised, not judged)
    plain_member!(v, 0, "for<'a> fn(i32, &'a u8) -> i64", true, t17, r17, (a: i32, b: &u8) -> i64, 1017, 2017, |_a: i32, _b: &u8| -> i64 { 2017 });
    {
        #[inline(never)]
        fn t18(_a: i32, _b: &'static u8) -> i64 {
            std::hint::black_box(1018)
        }
        #[inline(never)]
        fn r18(_a: i32, _b: &'static u8) -> i64 {
            std::hint::black_box(2018)
        }
        v.push(Member {
            class: 0,
            label: "fn(i32, &'static u8) -> i64",
            lifetime_variant: true,
            target_addr: t18 as usize,
            as_target: vec![("func!(f, ty)", Box::new(|| injectorpp::func!(t18, fn(i32, &'static u8) -> i64)))],
            as_repl: vec![("func!(f, ty)", Box::new(|| injectorpp::func!(r18, fn(i32, &'static u8) -> i64)))],
            as_fake: vec![],
        });
    }
    // unit return
    {
        #[inline(never)]
        fn t19(_a: i32, _b: &u8) {
            std::hint::black_box(());
        }
        #[inline(never)]
        fn r19(_a: i32, _b: &u8) {
            std::hint::black_box(());
        }
        v.push(Member {
            class: 19,
            label: "fn(i32, &u8)",
            lifetime_variant: false,
            target_addr: t19 as usize,
            as_target: vec![("func!(f, ty)", Box::new(|| injectorpp::func!(t19, fn(i32, &u8)))), ("func!(fn (f)(..))", Box::new(|| injectorpp::func!(fn (t19)(i32, &u8))))],
            as_repl: vec![("func!(f, ty)", Box::new(|| injectorpp::func!(r19, fn(i32, &u8)))), ("closure!", Box::new(|| injectorpp::closure!(|_a: i32, _b: &u8| {}, fn(i32, &u8))))],
            as_fake: vec![("fake!(unit)", Box::new(|| injectorpp::fake!(func_type: fn(_a: i32, _b: &u8) -> ()))), ("fake!(unit,times)", Box::new(|| injectorpp::fake!(func_type: fn(_a: i32, _b: &u8) -> (), times: 0)))],
        });
    }
    // unsafety
    {
        #[inline(never)]
        unsafe fn t20(_a: i32, _b: &u8) -> i64 {
            std::hint::black_box(1020)
        }
        #[inline(never)]
        unsafe fn r20(_a: i32, _b: &u8) -> i64 {
            std::hint::black_box(2020)
        }
        v.push(Member {
            class: 20,
            label: "unsafe fn(i32, &u8) -> i64",
            lifetime_variant: false,
            target_addr: t20 as usize,
            as_target: vec![("func!(f, ty)", Box::new(|| injectorpp::func!(t20, unsafe fn(i32, &u8) -> i64))), ("func!(unsafe{} fn ..)", Box::new(|| injectorpp::func!(unsafe{} fn (t20)(i32, &u8) -> i64)))],
            as_repl: vec![("func!(f, ty)", Box::new(|| injectorpp::func!(r20, unsafe fn(i32, &u8) -> i64))), ("func!(func_info: unsafe fn ..)", Box::new(|| injectorpp::func!(func_info: unsafe fn (r20)(i32, &u8) -> i64)))],
            as_fake: vec![("fake!(unsafe fn)", Box::new(|| injectorpp::fake!(func_type: unsafe fn(_a: i32, _b: &u8) -> i64, returns: 2020)))],
        });
    }
    // ABI
    {
        #[inline(never)]
        extern "C" fn t21(_a: i32, _b: &u8) -> i64 {
            std::hint::black_box(1021)
        }
        #[inline(never)]
        extern "C" fn r21(_a: i32, _b: &u8) -> i64 {
            std::hint::black_box(2021)
        }
        v.push(Member {
            class: 21,
            label: "extern \"C\" fn(i32, &u8) -> i64",
            lifetime_variant: false,
            target_addr: t21 as usize,
            as_target: vec![("func!(f, ty)", Box::new(|| injectorpp::func!(t21, extern "C" fn(i32, &u8) -> i64)))],
            as_repl: vec![("func!(f, ty)", Box::new(|| injectorpp::func!(r21, extern "C" fn(i32, &u8) -> i64)))],
            as_fake: vec![],
        });
    }
    {
        #[inline(never)]
        unsafe extern "C" fn t22(_a: i32, _b: &u8) -> i64 {
            std::hint::black_box(1022)
        }
        #[inline(never)]
        unsafe extern "C" fn r22(_a: i32, _b: &u8) -> i64 {
            std::hint::black_box(2022)
        }
        v.push(Member {
            class: 22,
            label: "unsafe extern \"C\" fn(i32, &u8) -> i64",
            lifetime_variant: false,
            target_addr: t22 as usize,
            as_target: vec![("func!(f, ty)", Box::new(|| injectorpp::func!(t22, unsafe extern "C" fn(i32, &u8) -> i64))), ("func!(unsafe{} extern C ..)", Box::new(|| injectorpp::func!(unsafe{} extern "C" fn (t22)(i32, &u8) -> i64)))],
            as_repl: vec![("func!(f, ty)", Box::new(|| injectorpp::func!(r22, unsafe extern "C" fn(i32, &u8) -> i64))), ("func!(func_info: unsafe extern C ..)", Box::new(|| injectorpp::func!(func_info: unsafe extern "C" fn (r22)(i32, &u8) -> i64)))],
            as_fake: vec![("fake!(extern C)", Box::new(|| injectorpp::fake!(func_type: unsafe extern "C" fn(_a: i32, _b: &u8) -> i64, returns: 2022)))],
        });
    }
    {
        #[inline(never)]
        unsafe extern "system" fn t23(_a: i32, _b: &u8) -> i64 {
            std::hint::black_box(1023)
        }
        #[inline(never)]
        unsafe extern "system" fn r23(_a: i32, _b: &u8) -> i64 {
            std::hint::black_box(2023)
        }
        v.push(Member {
            class: 23,
            label: "unsafe extern \"system\" fn(i32, &u8) -> i64",
            lifetime_variant: false,
            target_addr: t23 as usize,
            as_target: vec![("func!(f, ty)", Box::new(|| injectorpp::func!(t23, unsafe extern "system" fn(i32, &u8) -> i64))), ("func!(unsafe{} extern system ..)", Box::new(|| injectorpp::func!(unsafe{} extern "system" fn (t23)(i32, &u8) -> i64)))],
            as_repl: vec![("func!(f, ty)", Box::new(|| injectorpp::func!(r23, unsafe extern "system" fn(i32, &u8) -> i64)))],
            as_fake: vec![("fake!(extern system)", Box::new(|| injectorpp::fake!(func_type: unsafe extern "system" fn(_a: i32, _b: &u8) -> i64, returns: 2023)))],
        });
    }
    v
}

// async output family
async fn as_u32() -> u32 {
    1
}
async fn as_i32() -> i32 {
    1
}
async fn as_u64() -> u64 {
    1
}
async fn as_bool() -> bool {
    false
}
async fn as_string() -> String {
    "o".into()
}
async fn as_unit() {}
async fn as_opt() -> Option<u32> {
    None
}

pub fn run_c09(ctx: &Ctx) {
    let fam = family();
    let images: Vec<Vec<u8>> = fam.iter().map(|m| bytes_at(m.target_addr, 16)).collect();
    let mut idx = 0u64;
    let mut accepted = 0u64;
    let mut refused = 0u64;
    let mut by_msg: std::collections::BTreeMap<String, u64> = std::collections::BTreeMap::new();
    let mut lifetime_outcomes: Vec<String> = Vec::new();
    let mut judge = |idx: u64, class: String, same: bool, lifetime_only: bool, label: String, tgt_addr: Option<(usize, Vec<u8>)>, f: &mut dyn FnMut(&mut InjectorPP), accepted: &mut u64, refused: &mut u64, by_msg: &mut std::collections::BTreeMap<String, u64>, lifetime_outcomes: &mut Vec<String>| {
        if !ctx.mine(idx) {
            return;
        }
        out::intent(idx, &class, &J::new().s("pair", &label).s("crash_sig", "signature-check"));
        let m0 = ip::mark();
        let (res, _msgs) = panicobs::observe(|| {
            let mut inj = ip::lib(InjectorPP::new);
            let r = std::panic::catch_unwind(std::panic::AssertUnwindSafe(|| ip::lib(|| f(&mut inj))));
            // count what the library touched during the (possibly refused) call, before the drop
            let ev = ip::since(m0).unwrap_or_default();
            let touched = ev.iter().filter(|e| e.in_lib == 1 && (e.kind == ip::EV_MPROTECT || e.kind == ip::EV_FLUSH || (e.kind == ip::EV_MMAP && (e.prot & libc::PROT_EXEC) != 0))).count();
            let intact_during = tgt_addr.as_ref().map(|(a, im)| &bytes_at(*a, 16) == im).unwrap_or(true);
            ip::lib(|| drop(inj));
            (r.map_err(|p| panicobs::payload_msg(&p)), touched, intact_during)
        });
        let (r, touched, intact_during) = match res {
            Ok(x) => x,
            Err(m) => {
                out::outcome(idx, &class, Verdict::Violated, "panic-outside-the-install-call", &J::new().s("msg", &m));
                return;
            }
        };
        let mut d = J::new().s("pair", &label).b("structurally_same", same).b("lifetime_spelling_only", lifetime_only).n("library_memory_events_before_outcome", touched);
        let ok = r.is_ok();
        if ok {
            *accepted += 1;
        } else {
            *refused += 1;
        }
        let msg = r.clone().err().unwrap_or_default();
        let mclass = if ok { "accepted".to_string() } else { panicobs::classify(&msg).to_string() };
        *by_msg.entry(mclass.clone()).or_insert(0) += 1;
        d = d.s("outcome", &mclass);
        if lifetime_only {
            lifetime_outcomes.push(format!("{} => {}", label, mclass));
            out::outcome(idx, &format!("{}/not-judged", class), Verdict::Held, "", &d.b("not_judged", true));
            return;
        }
        let mut sig = String::new();
        if same && !ok {
            sig = "identical-signature-refused".into();
            d = d.s("msg", &msg);
        } else if !same && ok {
            sig = "structurally-different-signature-accepted".into();
        } else if !ok {
            if mclass != "sig-mismatch" && mclass != "null-pointer" && mclass != "bool-sig-mismatch" {
                sig = "refusal-is-not-a-signature-mismatch-or-null-pointer-panic".into();
                d = d.s("msg", &msg);
            } else if touched != 0 {
                sig = "refusal-after-memory-was-touched".into();
            } else if !intact_during {
                sig = "refused-target-modified".into();
            }
        }
        out::outcome(idx, &class, if sig.is_empty() { Verdict::Held } else { Verdict::Violated }, &sig, &d);
    };
    // (1) every ordered pair x every target form x every replacement form (raw)
    for (i, mi) in fam.iter().enumerate() {
        for (j, mj) in fam.iter().enumerate() {
            let same = mi.class == mj.class;
            let lt = same && (mi.lifetime_variant || mj.lifetime_variant) && i != j;
            for (tf, mk_t) in mi.as_target.iter() {
                for (rf, mk_r) in mj.as_repl.iter() {
                    let class = format!("raw/{}~{}/{}|{}", mi.class, mj.class, tf, rf);
                    let label = format!("{}  <-  {}", mi.label, mj.label);
                    judge(idx, class, same, lt, label, Some((mi.target_addr, images[i].clone())), &mut |inj| inj.when_called(mk_t()).will_execute_raw(mk_r()), &mut accepted, &mut refused, &mut by_msg, &mut lifetime_outcomes);
                    idx += 1;
                }
                for (ff, mk_f) in mj.as_fake.iter() {
                    let class = format!("fake/{}~{}/{}|{}", mi.class, mj.class, tf, ff);
                    let label = format!("{}  <-  fake! {}", mi.label, mj.label);
                    judge(idx, class, same, lt, label, Some((mi.target_addr, images[i].clone())), &mut |inj| inj.when_called(mk_t()).will_execute(mk_f()), &mut accepted, &mut refused, &mut by_msg, &mut lifetime_outcomes);
                    idx += 1;
                }
            }
        }
    }
    // (2) null pointers and checked/unchecked mixes
    for (i, mi) in fam.iter().enumerate() {
        let (_, mk_t) = &mi.as_target[0];
        let (_, mk_r) = &mi.as_repl[0];
        let lab = mi.label.to_string();
        judge(idx, format!("null-target/{}", mi.class), false, false, format!("null <- {}", lab), None, &mut |inj| inj.when_called(fp(0, "fn()")).will_execute_raw(mk_r()), &mut accepted, &mut refused, &mut by_msg, &mut lifetime_outcomes);
        idx += 1;
        judge(idx, format!("null-fake/{}", mi.class), false, false, format!("{} <- null", lab), Some((mi.target_addr, images[i].clone())), &mut |inj| inj.when_called(mk_t()).will_execute_raw(fp(0, "fn()")), &mut accepted, &mut refused, &mut by_msg, &mut lifetime_outcomes);
        idx += 1;
        let ta = mi.target_addr;
        judge(idx, format!("typed-target+unchecked-fake/{}", mi.class), false, false, format!("{} <- unchecked", lab), Some((ta, images[i].clone())), &mut |inj| inj.when_called(mk_t()).will_execute_raw(fp(ta, "")), &mut accepted, &mut refused, &mut by_msg, &mut lifetime_outcomes);
        idx += 1;
        judge(idx, format!("unchecked-target+typed-fake/{}", mi.class), false, false, format!("unchecked <- {}", lab), Some((ta, images[i].clone())), &mut |inj| unsafe { inj.when_called_unchecked(fp(ta, "")).will_execute_raw(mk_r()) }, &mut accepted, &mut refused, &mut by_msg, &mut lifetime_outcomes);
        idx += 1;
    }
    // (3) async: output type of async_func! vs async_return!
    macro_rules! async_pair {
        ($name:expr, $same:expr, $f:ident, $t:ty, $val:expr, $u:ty) => {{
            judge(idx, format!("async/{}", $name), $same, false, format!("async {} <- {}", stringify!($t), stringify!($u)), None, &mut |inj| inj.when_called_async(injectorpp::async_func!($f(), $t)).will_return_async(injectorpp::async_return!($val, $u)), &mut accepted, &mut refused, &mut by_msg, &mut lifetime_outcomes);
            idx += 1;
        }};
    }
    async_pair!("u32~u32", true, as_u32, u32, 5u32, u32);
    async_pair!("u32~i32", false, as_u32, u32, 5i32, i32);
    async_pair!("u32~u64", false, as_u32, u32, 5u64, u64);
    async_pair!("u32~bool", false, as_u32, u32, true, bool);
    async_pair!("u32~opt", false, as_u32, u32, Some(1u32), Option<u32>);
    async_pair!("i32~i32", true, as_i32, i32, 5i32, i32);
    async_pair!("i32~u32", false, as_i32, i32, 5u32, u32);
    async_pair!("u64~u64", true, as_u64, u64, 5u64, u64);
    async_pair!("u64~u32", false, as_u64, u64, 5u32, u32);
    async_pair!("bool~bool", true, as_bool, bool, true, bool);
    async_pair!("bool~u32", false, as_bool, bool, 1u32, u32);
    async_pair!("string~string", true, as_string, String, "f".to_string(), String);
    async_pair!("string~u32", false, as_string, String, 1u32, u32);
    async_pair!("string~str", false, as_string, String, "f", &'static str);
    async_pair!("unit~unit", true, as_unit, (), (), ());
    async_pair!("unit~u32", false, as_unit, (), 1u32, u32);
    async_pair!("opt~opt", true, as_opt, Option<u32>, Some(1u32), Option<u32>);
    async_pair!("opt~u32", false, as_opt, Option<u32>, 1u32, u32);
    async_pair!("opt~opt-i32", false, as_opt, Option<u32>, Some(1i32), Option<i32>);
    // a hand-written poll function given to the checked async installer: only `fn() -> Poll<T>` with the right T fits
    {
        use std::task::Poll;
        #[inline(never)]
        fn p_ok() -> Poll<u32> {
            Poll::Ready(9)
        }
        #[inline(never)]
        fn p_arg(_a: u64) -> Poll<u32> {
            Poll::Ready(9)
        }
        #[inline(never)]
        fn p_mutref(_a: &mut u32) -> Poll<u32> {
            Poll::Ready(9)
        }
        #[inline(never)]
        unsafe fn p_unsafe() -> Poll<u32> {
            Poll::Ready(9)
        }
        #[inline(never)]
        extern "C" fn p_c() -> Poll<u32> {
            Poll::Ready(9)
        }
        #[inline(never)]
        fn p_u64() -> Poll<u64> {
            Poll::Ready(9)
        }
        let shapes: Vec<(&str, bool, Box<dyn Fn() -> FuncPtr>)> = vec![
            ("fn()->Poll<u32>", true, Box::new(|| injectorpp::func!(p_ok, fn() -> Poll<u32>))),
            ("fn(u64)->Poll<u32>", false, Box::new(|| injectorpp::func!(p_arg, fn(u64) -> Poll<u32>))),
            ("fn(&mut u32)->Poll<u32>", false, Box::new(|| injectorpp::func!(p_mutref, fn(&mut u32) -> Poll<u32>))),
            ("unsafe fn()->Poll<u32>", false, Box::new(|| injectorpp::func!(p_unsafe, unsafe fn() -> Poll<u32>))),
            ("extern C fn()->Poll<u32>", false, Box::new(|| injectorpp::func!(p_c, extern "C" fn() -> Poll<u32>))),
            ("fn()->Poll<u64>", false, Box::new(|| injectorpp::func!(p_u64, fn() -> Poll<u64>))),
            ("closure fn(u64)->Poll<u32>", false, Box::new(|| injectorpp::closure!(|_a: u64| -> Poll<u32> { Poll::Ready(9) }, fn(u64) -> Poll<u32>))),
        ];
        for (name, same, mk) in shapes.iter() {
            judge(idx, format!("async-poll-shape/{}", name), *same, false, format!("async u32 <- {}", name), None, &mut |inj| inj.when_called_async(injectorpp::async_func!(as_u32(), u32)).will_return_async(mk()), &mut accepted, &mut refused, &mut by_msg, &mut lifetime_outcomes);
            idx += 1;
        }
    }
    // typed async target with an unchecked value and vice versa
    judge(idx, "async/typed+unchecked-return".into(), false, false, "async u32 <- unchecked".into(), None, &mut |inj| inj.when_called_async(injectorpp::async_func!(as_u32(), u32)).will_return_async(unsafe { injectorpp::async_return_unchecked!(5u32, u32) }), &mut accepted, &mut refused, &mut by_msg, &mut lifetime_outcomes);
    idx += 1;
    judge(idx, "async/unchecked-target+typed-return".into(), false, false, "async unchecked <- u32".into(), None, &mut |inj| unsafe { inj.when_called_async_unchecked(injectorpp::async_func_unchecked!(as_u32())) }.will_return_async(injectorpp::async_return!(5u32, u32)), &mut accepted, &mut refused, &mut by_msg, &mut lifetime_outcomes);
    idx += 1;
    // (3b) C-variadic function-pointer types (their name contains `...`): an identically typed pair is accepted, a
    // non-variadic replacement of the same fixed part is refused. printf and scanf have the same type.
    {
        type V = unsafe extern "C" fn(*const libc::c_char, ...) -> libc::c_int;
        type NV = unsafe extern "C" fn(*const libc::c_char) -> libc::c_int;
        judge(idx, "variadic/same".into(), true, false, "unsafe extern C fn(*const c_char, ...) -> c_int <- same type".into(), None, &mut |inj| inj.when_called(injectorpp::func!(libc::printf, V)).will_execute_raw(injectorpp::func!(libc::scanf, V)), &mut accepted, &mut refused, &mut by_msg, &mut lifetime_outcomes);
        idx += 1;
        judge(idx, "variadic/vs-non-variadic".into(), false, false, "unsafe extern C fn(*const c_char, ...) -> c_int <- unsafe extern C fn(*const c_char) -> c_int".into(), None, &mut |inj| inj.when_called(injectorpp::func!(libc::printf, V)).will_execute_raw(injectorpp::func!(libc::puts, NV)), &mut accepted, &mut refused, &mut by_msg, &mut lifetime_outcomes);
        idx += 1;
    }
    // (4) the check is about declared types, every time: after a pair of functions has been accepted once, the SAME two
    // addresses presented with other declared types are still refused
    {
        #[inline(never)]
        fn again_t(a: i32, _b: &u8) -> i64 {
            std::hint::black_box(a as i64 + 5000)
        }
        #[inline(never)]
        fn again_r(a: i32, _b: &u8) -> i64 {
            std::hint::black_box(a as i64 + 6000)
        }
        let ta = again_t as usize;
        let ra = again_r as usize;
        // first the well-typed pairing (accepted), in its own lifetime
        judge(idx, "again/0-well-typed".into(), true, false, "fn(i32, &u8) -> i64 <- fn(i32, &u8) -> i64 (first time)".into(), None, &mut |inj| inj.when_called(injectorpp::func!(again_t, fn(i32, &u8) -> i64)).will_execute_raw(injectorpp::func!(again_r, fn(i32, &u8) -> i64)), &mut accepted, &mut refused, &mut by_msg, &mut lifetime_outcomes);
        idx += 1;
        let later: Vec<(&str, Box<dyn Fn(&mut InjectorPP)>)> = vec![
            ("replacement-now-declared-unsafe", Box::new(|inj: &mut InjectorPP| inj.when_called(injectorpp::func!(again_t, fn(i32, &u8) -> i64)).will_execute_raw(injectorpp::func!(again_r, unsafe fn(i32, &u8) -> i64)))),
            ("target-now-declared-unsafe", Box::new(|inj: &mut InjectorPP| inj.when_called(injectorpp::func!(again_t, unsafe fn(i32, &u8) -> i64)).will_execute_raw(injectorpp::func!(again_r, fn(i32, &u8) -> i64)))),
            ("replacement-now-untyped", Box::new(move |inj: &mut InjectorPP| inj.when_called(injectorpp::func!(again_t, fn(i32, &u8) -> i64)).will_execute_raw(fp(ra, "")))),
            ("target-now-untyped", Box::new(move |inj: &mut InjectorPP| unsafe { inj.when_called_unchecked(fp(ta, "")) }.will_execute_raw(injectorpp::func!(again_r, fn(i32, &u8) -> i64)))),
        ];
        for (name, f) in later.iter() {
            // each variant twice: an implementation that remembers decisions must not learn the wrong one either
            for rep in 0..2 {
                judge(idx, format!("again/{}/{}", name, rep), false, false, format!("same two functions as accepted before, {}", name), None, &mut |inj| f(inj), &mut accepted, &mut refused, &mut by_msg, &mut lifetime_outcomes);
                idx += 1;
            }
        }
        // and the well-typed pairing is still accepted afterwards
        judge(idx, "again/9-well-typed".into(), true, false, "fn(i32, &u8) -> i64 <- fn(i32, &u8) -> i64 (after the refusals)".into(), None, &mut |inj| inj.when_called(injectorpp::func!(again_t, fn(i32, &u8) -> i64)).will_execute_raw(injectorpp::func!(again_r, fn(i32, &u8) -> i64)), &mut accepted, &mut refused, &mut by_msg, &mut lifetime_outcomes);
        idx += 1;
    }
    let bm = by_msg.iter().fold(J::new(), |j, (k, v)| j.n(k, *v));
    out::summary(&J::new().n("family_members", fam.len()).n("pairs_total", idx).n("accepted", accepted).n("refused", refused).o("outcomes", bm).arr_s("lifetime_spelling_pairs_not_judged", &lifetime_outcomes));
}

// ------------------------------------------------------------------ C10, gate half
pub fn run_c10_gate(ctx: &Ctx) {
    let mut idx = 0u64;
    let mut accepted = 0u64;
    let mut refused = 0u64;
    macro_rules! gate {
        ($label:expr, $returns_bool:expr, $f:expr, $ty:ty, $call_ok:expr) => {{
            if ctx.mine(idx) {
                let class = format!("gate/{}", $label);
                out::intent(idx, &class, &J::new().s("type", stringify!($ty)).s("crash_sig", "gate"));
                let addr = { let p: $ty = $f; p as usize };
                let image = bytes_at(addr, 16);
                for value in [true, false] {
                    let m0 = ip::mark();
                    let (res, _m) = panicobs::observe(|| {
                        let mut inj = ip::lib(InjectorPP::new);
                        let r = std::panic::catch_unwind(std::panic::AssertUnwindSafe(|| ip::lib(|| inj.when_called(injectorpp::func!($f, $ty)).will_return_boolean(value))));
                        let ev = ip::since(m0).unwrap_or_default();
                        let touched = ev.iter().filter(|e| e.in_lib == 1 && (e.kind == ip::EV_MPROTECT || e.kind == ip::EV_FLUSH || (e.kind == ip::EV_MMAP && (e.prot & libc::PROT_EXEC) != 0))).count();
                        let intact = bytes_at(addr, 16) == image;
                        // an accepted bool function is called; a wrongly accepted one never is
                        let called: Option<bool> = if r.is_ok() && $returns_bool { Some($call_ok(value)) } else { None };
                        ip::lib(|| drop(inj));
                        (r.map_err(|p| panicobs::payload_msg(&p)), touched, intact, called)
                    });
                    let (r, touched, intact, called) = match res { Ok(x) => x, Err(m) => { out::outcome(idx, &class, Verdict::Violated, "panic-outside-the-install-call", &J::new().s("msg", &m)); break; } };
                    let ok = r.is_ok();
                    if ok { accepted += 1 } else { refused += 1 }
                    let d = J::new().s("type", stringify!($ty)).b("declared_return_is_bool", $returns_bool).b("accepted", ok).b("value", value).s("msg", &r.clone().err().unwrap_or_default());
                    let sig = if $returns_bool && !ok { "bool-function-refused" }
                        else if !$returns_bool && ok { "non-bool-function-accepted" }

                        else if !ok && (touched != 0 || !intact) { "refusal-after-memory-was-touched" }
                        else if called == Some(false) { "accepted-but-call-did-not-return-the-value" }
                        else { "" };
                    if !sig.is_empty() || !value {
                        out::outcome(idx, &class, if sig.is_empty() { Verdict::Held } else { Verdict::Violated }, sig, &d);
                        break;
                    }
                }
            }
            idx += 1;
        }};
    }
    // --- functions whose declared return type is bool, all qualifiers
    #[inline(never)] fn b0() -> bool { std::hint::black_box(false) }
    #[inline(never)] fn b1(_a: i32, _b: &u8) -> bool { std::hint::black_box(false) }
    #[inline(never)] unsafe fn b2() -> bool { std::hint::black_box(false) }
    #[inline(never)] unsafe extern "C" fn b3(_a: i32) -> bool { std::hint::black_box(false) }
    #[inline(never)] unsafe extern "system" fn b4() -> bool { std::hint::black_box(false) }
    #[inline(never)] extern "C" fn b5() -> bool { std::hint::black_box(false) }
    #[inline(never)] fn b6(_f: fn() -> i32) -> bool { std::hint::black_box(false) }
    #[inline(never)] fn b7(_f: fn() -> bool, _g: Option<bool>) -> bool { std::hint::black_box(false) }
    #[inline(never)] fn b8<T: Default>(_t: T) -> bool { std::hint::black_box(false) }
    #[allow(non_camel_case_types)]
    struct Größe(u8);
    #[allow(non_camel_case_types)]
    struct Länge(u8);
    #[inline(never)] fn b9(_a: &Größe) -> bool { std::hint::black_box(false) }
    #[inline(never)] fn b10(_a: Größe, _b: (Länge, Länge)) -> bool { std::hint::black_box(false) }
    #[inline(never)] fn n16(_a: &Größe) -> Länge { Länge(0) }
    gate!("fn(&non-ascii)->bool", true, b9, fn(&Größe) -> bool, |v: bool| b9(&Größe(1)) == v);
    gate!("fn(non-ascii,(non-ascii,non-ascii))->bool", true, b10, fn(Größe, (Länge, Länge)) -> bool, |v: bool| b10(Größe(1), (Länge(2), Länge(3))) == v);
    gate!("fn(&non-ascii)->non-ascii", false, n16, fn(&Größe) -> Länge, |_v: bool| true);
    // wrappers around bool are not bool
    #[inline(never)] fn n17() -> std::task::Poll<bool> { std::task::Poll::Ready(std::hint::black_box(false)) }
    #[inline(never)] fn n18() -> Option<bool> { std::hint::black_box(Some(false)) }
    #[inline(never)] fn n19() -> (bool,) { (std::hint::black_box(false),) }
    #[inline(never)] fn n20() -> std::sync::atomic::AtomicBool { std::sync::atomic::AtomicBool::new(false) }
    // types that are merely NAMED like bool
    mod w {
        #[allow(clippy::upper_case_acronyms)]
        pub struct BOOL(pub i32);
        pub enum Bool {
            No,
            Yes,
            Maybe,
        }
        #[allow(non_camel_case_types)]
        pub struct bool(pub [u64; 3]);
    }
    #[inline(never)] fn n21() -> w::BOOL { w::BOOL(std::hint::black_box(7)) }
    #[inline(never)] fn n22() -> w::Bool { if std::hint::black_box(true) { w::Bool::Maybe } else if std::hint::black_box(false) { w::Bool::Yes } else { w::Bool::No } }
    #[inline(never)] fn n23() -> w::bool { w::bool([std::hint::black_box(1), 2, 3]) }
    gate!("fn()->w::BOOL", false, n21, fn() -> w::BOOL, |_v: core::primitive::bool| true);
    gate!("fn()->w::Bool", false, n22, fn() -> w::Bool, |_v: core::primitive::bool| true);
    gate!("fn()->w::bool", false, n23, fn() -> w::bool, |_v: core::primitive::bool| true);
    gate!("fn()->Poll<bool>", false, n17, fn() -> std::task::Poll<bool>, |_v: bool| true);
    gate!("fn()->Option<bool>", false, n18, fn() -> Option<bool>, |_v: bool| true);
    gate!("fn()->(bool,)", false, n19, fn() -> (bool,), |_v: bool| true);
    gate!("fn()->AtomicBool", false, n20, fn() -> std::sync::atomic::AtomicBool, |_v: bool| true);
    gate!("fn()->bool", true, b0, fn() -> bool, |v: bool| b0() == v);
    gate!("fn(i32,&u8)->bool", true, b1, fn(i32, &u8) -> bool, |v: bool| b1(1, &2) == v);
    gate!("unsafe-fn()->bool", true, b2, unsafe fn() -> bool, |v: bool| unsafe { b2() } == v);
    gate!("unsafe-extern-C-fn(i32)->bool", true, b3, unsafe extern "C" fn(i32) -> bool, |v: bool| unsafe { b3(1) } == v);
    gate!("unsafe-extern-system-fn()->bool", true, b4, unsafe extern "system" fn() -> bool, |v: bool| unsafe { b4() } == v);
    gate!("extern-C-fn()->bool", true, b5, extern "C" fn() -> bool, |v: bool| b5() == v);
    gate!("fn(fn()->i32)->bool", true, b6, fn(fn() -> i32) -> bool, |v: bool| b6(|| 1) == v);
    gate!("fn(fn()->bool,Option<bool>)->bool", true, b7, fn(fn() -> bool, Option<bool>) -> bool, |v: bool| b7(|| true, None) == v);
    gate!("generic<u64>->bool", true, b8::<u64>, fn(u64) -> bool, |v: bool| b8::<u64>(3) == v);
    // --- functions whose declared return type is NOT bool, including textual traps
    #[inline(never)] fn n0() -> i32 { std::hint::black_box(0) }
    #[inline(never)] fn n1() { std::hint::black_box(()); }
    #[inline(never)] fn n2() -> fn() -> bool { std::hint::black_box(b0 as fn() -> bool) }
    #[inline(never)] fn n3() -> Option<bool> { std::hint::black_box(None) }
    #[inline(never)] fn n4() -> Box<dyn Fn() -> bool> { Box::new(|| false) }
    #[inline(never)] fn n5() -> *const fn() -> bool { std::ptr::null() }
    #[inline(never)] fn n6(_f: fn() -> bool) { std::hint::black_box(()); }
    #[inline(never)] fn n7(_f: fn() -> bool) -> i32 { std::hint::black_box(0) }
    #[inline(never)] fn n8() -> (bool,) { std::hint::black_box((false,)) }
    #[inline(never)] fn n9() -> [bool; 1] { std::hint::black_box([false]) }
    #[inline(never)] fn n10() -> u8 { std::hint::black_box(0) }
    #[inline(never)] fn n11() -> &'static bool { &true }
    #[inline(never)] fn n12(_a: i32) -> unsafe extern "C" fn(i32) -> bool { b3 }
    #[inline(never)] fn n13() -> Result<bool, bool> { Ok(false) }
    #[inline(never)] unsafe extern "C" fn n14() -> fn(fn() -> bool) -> bool { |_f| false }
    #[inline(never)] fn n15() -> std::cell::Cell<bool> { std::cell::Cell::new(false) }
    gate!("fn()->i32", false, n0, fn() -> i32, |_v: bool| true);
    gate!("fn()", false, n1, fn(), |_v: bool| true);
    gate!("fn()->fn()->bool", false, n2, fn() -> fn() -> bool, |_v: bool| true);
    gate!("fn()->Option<bool>", false, n3, fn() -> Option<bool>, |_v: bool| true);
    gate!("fn()->Box<dyn-Fn()->bool>", false, n4, fn() -> Box<dyn Fn() -> bool>, |_v: bool| true);
    gate!("fn()->*const-fn()->bool", false, n5, fn() -> *const fn() -> bool, |_v: bool| true);
    gate!("fn(fn()->bool)", false, n6, fn(fn() -> bool), |_v: bool| true);
    gate!("fn(fn()->bool)->i32", false, n7, fn(fn() -> bool) -> i32, |_v: bool| true);
    gate!("fn()->(bool,)", false, n8, fn() -> (bool,), |_v: bool| true);
    gate!("fn()->[bool;1]", false, n9, fn() -> [bool; 1], |_v: bool| true);
    gate!("fn()->u8", false, n10, fn() -> u8, |_v: bool| true);
    gate!("fn()->&bool", false, n11, fn() -> &'static bool, |_v: bool| true);
    gate!("fn(i32)->unsafe-extern-C-fn(i32)->bool", false, n12, fn(i32) -> unsafe extern "C" fn(i32) -> bool, |_v: bool| true);
    gate!("fn()->Result<bool,bool>", false, n13, fn() -> Result<bool, bool>, |_v: bool| true);
    gate!("unsafe-extern-C-fn()->fn(fn()->bool)->bool", false, n14, unsafe extern "C" fn() -> fn(fn() -> bool) -> bool, |_v: bool| true);
    gate!("fn()->Cell<bool>", false, n15, fn() -> std::cell::Cell<bool>, |_v: bool| true);
    // --- no type information at all (when_called_unchecked / a hand-made FuncPtr with an empty
    // signature): the function cannot be known to return bool, so a NON-bool function must still be
    // refused; what happens for a function that does return bool is not judged.
    macro_rules! gate_untyped {
        ($label:expr, $f:expr, $how:expr) => {{
            if ctx.mine(idx) {
                let class = format!("gate-untyped/{}", $label);
                out::intent(idx, &class, &J::new().s("crash_sig", "gate-untyped"));
                let addr = $f as usize;
                let image = bytes_at(addr, 16);
                let (res, _m) = panicobs::observe(|| {
                    let mut inj = ip::lib(InjectorPP::new);
                    let r = std::panic::catch_unwind(std::panic::AssertUnwindSafe(|| {
                        ip::lib(|| {
                            if $how == 0 {
                                unsafe { inj.when_called_unchecked(fp(addr, "")).will_return_boolean(true) }
                            } else if $how == 1 {
                                inj.when_called(fp(addr, "")).will_return_boolean(true)
                            } else {
                                unsafe { inj.when_called_unchecked(injectorpp::func_unchecked!($f)).will_return_boolean(false) }
                            }
                        })
                    }));
                    let intact = bytes_at(addr, 16) == image;
                    ip::lib(|| drop(inj));
                    (r.is_ok(), intact)
                });
                match res {
                    Ok((accepted_it, intact)) => {
                        if accepted_it { accepted += 1 } else { refused += 1 }
                        let d = J::new().s("function", $label).b("accepted", accepted_it).b("target_intact_at_outcome", intact);
                        let sig = if accepted_it { "non-bool-function-accepted-without-type-information" } else if !intact { "refusal-after-memory-was-touched" } else { "" };
                        out::outcome(idx, &class, if sig.is_empty() { Verdict::Held } else { Verdict::Violated }, sig, &d);
                    }
                    Err(m) => out::outcome(idx, &class, Verdict::Violated, "panic-outside-the-install-call", &J::new().s("msg", &m)),
                }
            }
            idx += 1;
        }};
    }
    #[inline(never)] fn u0() -> u64 { std::hint::black_box(0x1122_3344_5566_7788) }
    #[inline(never)] fn u1() -> String { String::from("not a bool") }
    #[inline(never)] fn u2(_a: i32) -> fn() -> bool { b0 }
    gate_untyped!("fn()->u64/when_called_unchecked", u0, 0);
    gate_untyped!("fn()->u64/empty-signature-FuncPtr", u0, 1);
    gate_untyped!("fn()->u64/func_unchecked!", u0, 2);
    gate_untyped!("fn()->String/when_called_unchecked", u1, 0);
    gate_untyped!("fn()->String/func_unchecked!", u1, 2);
    gate_untyped!("fn(i32)->fn()->bool/when_called_unchecked", u2, 0);
    out::summary(&J::new().n("signatures", idx).n("accepted", accepted).n("refused", refused));
}
