//! C04 — injector and preventer guards are mutually exclusive across threads.
//! T threads loop over seeded scripts of {injector + thread-specific fake on one shared function,
//! injector without install, preventer} x {exit by drop, exit by panic}; M1 delays stretch the
//! library's own critical section at its system-call boundaries.
use crate::interpose as ip;
use crate::out::{self, Verdict, J};
use crate::rng::{hash64, Rng};
use crate::Ctx;
use injectorpp::interface::injector::*;
use std::sync::atomic::{AtomicBool, AtomicI64, AtomicU64, AtomicUsize, Ordering};
use std::sync::{Arc, Barrier, Mutex};
use std::time::{Duration, Instant};

const ORIG: i32 = 0x5EED;
#[inline(never)]
pub fn shared(x: i32) -> i32 {
    std::hint::black_box(ORIG + x)
}
macro_rules! tfakes {
    ($($n:ident = $v:expr),*) => { $( #[inline(never)] fn $n(_x: i32) -> i32 { std::hint::black_box($v) } )* };
}
tfakes!(t0 = 0x100, t1 = 0x101, t2 = 0x102, t3 = 0x103, t4 = 0x104, t5 = 0x105, t6 = 0x106, t7 = 0x107, t8 = 0x108, t9 = 0x109, t10 = 0x10a, t11 = 0x10b, t12 = 0x10c, t13 = 0x10d, t14 = 0x10e, t15 = 0x10f);
const TF: [fn(i32) -> i32; 16] = [t0, t1, t2, t3, t4, t5, t6, t7, t8, t9, t10, t11, t12, t13, t14, t15];

/// number of threads currently between "constructor returned" and "about to let go"
static HOLDERS: AtomicI64 = AtomicI64::new(0);
/// guard objects that exist (constructor returned, destructor not yet returned)
static LIVE_GUARDS: AtomicI64 = AtomicI64::new(0);
/// threads blocked in a constructor right now
static WAITERS: AtomicI64 = AtomicI64::new(0);
static OWNER: AtomicU64 = AtomicU64::new(0);
/// the plain cell only the library's lock protects: non-atomic read-modify-write (TSan's probe)
static mut PLAIN: u64 = 0;
static PLAIN_SHADOW: AtomicU64 = AtomicU64::new(0);

static V_TWO_HOLDERS: AtomicU64 = AtomicU64::new(0);
static V_OWNER: AtomicU64 = AtomicU64::new(0);
static V_PREVENTER_SAW_FAKE: AtomicU64 = AtomicU64::new(0);
static V_INJECTOR_SAW_FOREIGN: AtomicU64 = AtomicU64::new(0);
static V_FIRST_CALL_NOT_ORIGINAL: AtomicU64 = AtomicU64::new(0);
static V_PLAIN_LOST_UPDATE: AtomicU64 = AtomicU64::new(0);
static WITNESS: Mutex<Vec<String>> = Mutex::new(Vec::new());

static ACQ: AtomicU64 = AtomicU64::new(0);
static CONTENDED: AtomicU64 = AtomicU64::new(0);
static MAX_WAIT_US: AtomicU64 = AtomicU64::new(0);
static LAST_KIND: AtomicUsize = AtomicUsize::new(99);
const NKIND: usize = 11;
static TRANS: [AtomicU64; NKIND * NKIND] = [const { AtomicU64::new(0) }; NKIND * NKIND];
static BYKIND: [AtomicU64; NKIND] = [const { AtomicU64::new(0) }; NKIND];
static V_VERDICT_DISTURBED: AtomicU64 = AtomicU64::new(0);
static VIA_DEFAULT: AtomicU64 = AtomicU64::new(0);
static STALE_TOKENS: AtomicU64 = AtomicU64::new(0);

/// an async function shared by all threads (kinds 7 and 8 fake its poll function)
pub async fn shared_async(x: u32) -> u32 {
    std::hint::black_box(x + 0x5A00)
}
fn await_shared(x: u32) -> u32 {
    super::pool::block_on(shared_async(x)).0
}
thread_local! {
    static MY_VAL: std::cell::Cell<i32> = const { std::cell::Cell::new(0) };
}
static ORDER_LOG: Mutex<Vec<u8>> = Mutex::new(Vec::new());

fn witness(s: String) {
    if let Ok(mut w) = WITNESS.lock() {
        if w.len() < 8 {
            w.push(s);
        }
    }
}

struct HolderMark {
    me: u64,
}
impl Drop for HolderMark {
    fn drop(&mut self) {
        // about to let go: still inside the critical section
        if OWNER.load(Ordering::SeqCst) != self.me {
            V_OWNER.fetch_add(1, Ordering::SeqCst);
            witness(format!("owner cell changed under holder {:x}: now {:x}", self.me, OWNER.load(Ordering::SeqCst)));
        }
        if WAITERS.load(Ordering::SeqCst) > 0 {
            CONTENDED.fetch_add(1, Ordering::Relaxed);
        }
        HOLDERS.fetch_sub(1, Ordering::SeqCst);
    }
}
struct LiveMark;
impl Drop for LiveMark {
    fn drop(&mut self) {
        LIVE_GUARDS.fetch_sub(1, Ordering::SeqCst);
    }
}

/// kinds: 0 inj+fake/drop 1 inj+fake/panic 2 inj-noinstall/drop 3 inj-noinstall/panic 4 preventer/drop 5 preventer/panic
/// 6 inj + fake!(times) left under-called: the scope exit itself panics in call-count verification
/// 7 inj whose first operation is when_called_async (checked), 8 ... when_called_async_unchecked,
/// 9 inj whose first operation is when_called_unchecked, 10 inj + fake!(times: K) called exactly K times
/// through a call site shared by all threads: the scope exit must not panic
fn one_scope(tid: usize, kind: usize, epoch: u64, rng: &mut Rng, plain_probe: bool) {
    enum G {
        I(InjectorPP),
        P(Preventer),
    }
    let _lib = ip::LibScope::enter();
    let t_wait = Instant::now();
    WAITERS.fetch_add(1, Ordering::SeqCst);
    // declared before the guard: dropped after the guard's destructor has returned
    let live;
    // one acquisition in eight is made by a thread that has a pending unpark token (left over from whatever it did
    // before): a guard may only be handed over by the holder letting go, not by a stale wake-up
    if rng.chance(1, 8) {
        std::thread::current().unpark();
        STALE_TOKENS.fetch_add(1, Ordering::Relaxed);
    }
    // every public way of obtaining an injector must take the guard: the constructor and the Default impl
    let via_default = rng.chance(1, 4);
    let mut guard = if kind < 4 || kind >= 6 {
        G::I(if via_default {
            VIA_DEFAULT.fetch_add(1, Ordering::Relaxed);
            Default::default()
        } else {
            InjectorPP::new()
        })
    } else {
        G::P(InjectorPP::prevent())
    };
    WAITERS.fetch_sub(1, Ordering::SeqCst);
    LIVE_GUARDS.fetch_add(1, Ordering::SeqCst);
    live = LiveMark;
    let _ = &live;
    let waited = t_wait.elapsed().as_micros() as u64;
    MAX_WAIT_US.fetch_max(waited, Ordering::Relaxed);
    // (1) at most one holder
    let prev = HOLDERS.fetch_add(1, Ordering::SeqCst);
    if prev != 0 {
        V_TWO_HOLDERS.fetch_add(1, Ordering::SeqCst);
        witness(format!("thread {} kind {} acquired while {} other holder(s) were inside", tid, kind, prev));
    }
    let me = ((tid as u64 + 1) << 40) | epoch;
    OWNER.store(me, Ordering::SeqCst);
    // declared after the guard: dropped before the guard's destructor runs
    let _mark = HolderMark { me };
    ACQ.fetch_add(1, Ordering::Relaxed);
    BYKIND[kind].fetch_add(1, Ordering::Relaxed);
    let lk = LAST_KIND.swap(kind, Ordering::SeqCst);
    if lk < NKIND {
        TRANS[lk * NKIND + kind].fetch_add(1, Ordering::Relaxed);
    }
    if let Ok(mut o) = ORDER_LOG.try_lock() {
        if o.len() < 1 << 16 {
            o.push(tid as u8);
        }
    }
    if plain_probe {
        unsafe {
            let p = std::ptr::addr_of_mut!(PLAIN);
            let v = std::ptr::read_volatile(p);
            std::hint::spin_loop();
            std::ptr::write_volatile(p, v + 1);
        }
        PLAIN_SHADOW.fetch_add(1, Ordering::SeqCst);
    }
    // (3) the first call right after acquiring: a predecessor that unlocked before restoring shows here
    let first = shared(1);
    if first != ORIG + 1 {
        V_FIRST_CALL_NOT_ORIGINAL.fetch_add(1, Ordering::SeqCst);
        witness(format!("thread {} kind {}: first call after acquiring returned {:#x}, not the original", tid, kind, first));
    }
    let want = if kind < 2 {
        if let G::I(inj) = &mut guard {
            let f = TF[tid % 16];
            inj.when_called(injectorpp::func!(fn (shared)(i32) -> i32)).will_execute_raw(injectorpp::func!(f, fn(i32) -> i32));
        }
        0x100 + (tid % 16) as i32
    } else if kind == 7 || kind == 8 {
        // the first operation of this injector goes through the async entry points
        let a0 = await_shared(1);
        if a0 != 0x5A01 {
            V_FIRST_CALL_NOT_ORIGINAL.fetch_add(1, Ordering::SeqCst);
            witness(format!("thread {} kind {}: shared async fn returned {:#x} before this holder faked it", tid, kind, a0));
        }
        if let G::I(inj) = &mut guard {
            if kind == 7 {
                inj.when_called_async(injectorpp::async_func!(shared_async(0), u32)).will_return_async(injectorpp::async_return!(MY_VAL.with(|v| v.get()) as u32, u32));
            } else {
                unsafe {
                    inj.when_called_async_unchecked(injectorpp::async_func_unchecked!(shared_async(0))).will_return_async_unchecked(injectorpp::async_return_unchecked!(MY_VAL.with(|v| v.get()) as u32, u32));
                }
            }
        }
        MY_VAL.with(|v| v.set(0x300 + (tid % 16) as i32));
        for _ in 0..3 {
            let a = await_shared(2);
            if a != 0x300 + (tid % 16) as u32 {
                V_INJECTOR_SAW_FOREIGN.fetch_add(1, Ordering::SeqCst);
                witness(format!("injector holder {} kind {}: await returned {:#x}", tid, kind, a));
            }
            std::thread::yield_now();
        }
        ORIG + 2
    } else if kind == 9 {
        if let G::I(inj) = &mut guard {
            let f = TF[tid % 16];
            unsafe {
                inj.when_called_unchecked(injectorpp::func_unchecked!(shared)).will_execute_raw_unchecked(injectorpp::func_unchecked!(f));
            }
        }
        0x100 + (tid % 16) as i32
    } else if kind == 10 {
        MY_VAL.with(|v| v.set(0x400 + (tid % 16) as i32));
        if let G::I(inj) = &mut guard {
            inj.when_called(injectorpp::func!(fn (shared)(i32) -> i32)).will_execute(injectorpp::fake!(
                func_type: fn(_x: i32) -> i32,
                returns: MY_VAL.with(|v| v.get()),
                times: 3
            ));
        }
        0x400 + (tid % 16) as i32
    } else if kind == 6 {
        MY_VAL.with(|v| v.set(0x200 + (tid % 16) as i32));
        if let G::I(inj) = &mut guard {
            inj.when_called(injectorpp::func!(fn (shared)(i32) -> i32)).will_execute(injectorpp::fake!(
                func_type: fn(_x: i32) -> i32,
                returns: MY_VAL.with(|v| v.get()),
                times: 1_000_000
            ));
        }
        0x200 + (tid % 16) as i32
    } else {
        ORIG + 2
    };
    let n = if kind == 10 { 3 } else { 1 + rng.below(4) };
    for k in 0..n {
        let got = shared(2);
        if got != want {
            if kind == 4 || kind == 5 {
                V_PREVENTER_SAW_FAKE.fetch_add(1, Ordering::SeqCst);
                witness(format!("preventer holder {} saw {:#x}", tid, got));
            } else {
                V_INJECTOR_SAW_FOREIGN.fetch_add(1, Ordering::SeqCst);
                witness(format!("injector holder {} kind {} saw {:#x}, wanted {:#x}", tid, kind, got, want));
            }
        }
        if OWNER.load(Ordering::SeqCst) != me {
            V_OWNER.fetch_add(1, Ordering::SeqCst);
            witness(format!("owner cell of holder {} overwritten", tid));
        }
        if k % 2 == 0 && rng.chance(1, 3) {
            std::thread::yield_now();
        }
    }
    if kind % 2 == 1 && kind < 6 {
        panic!("USER: holder {} leaves by panic", tid);
    }
    if kind == 10 {
        // exactly the expected number of calls was made by this holder: its scope exit must be silent,
        // whatever other threads attempt meanwhile
        drop(_mark);
        let r = std::panic::catch_unwind(std::panic::AssertUnwindSafe(move || drop(guard)));
        if let Err(p) = r {
            V_VERDICT_DISTURBED.fetch_add(1, Ordering::SeqCst);
            witness(format!("holder {} made exactly 3 calls of its times:3 fake, yet scope exit panicked: {}", tid, crate::panicobs::payload_msg(&p)));
        }
        return;
    }
    // normal exit: _mark, then guard, then live, then _lib are dropped
}

pub fn run(ctx: &Ctx) {
    // configurations: (threads, total acquisitions, delay mode)
    let scale = if ctx.n > 0 { ctx.n } else if ctx.thorough { 150000 } else { 6000 };
    let tsan = cfg!(feature = "tsan");
    let mut configs: Vec<(usize, u64, u64)> = Vec::new();
    for &t in &[2usize, 3, 4, 8, 16] {
        for &d in &[0u64, 1, 2] {
            configs.push((t, scale, d));
        }
    }
    let _ = shared(0);
    // ---- the very first acquisitions of a process, all at once: nothing in this process has asked for a guard yet;
    // 8 threads released together each take a guard (whatever the library sets up on first use is set up under
    // that race) - still one holder at a time
    if ctx.from == 0 && ctx.only.is_none() && !tsan {
        let idx = 1_700_000_000 + ctx.shard;
        let class = "first-acquisitions-of-the-process-all-at-once".to_string();
        out::intent(idx, &class, &J::new().s("crash_sig", "first-use"));
        static INSIDE: AtomicI64 = AtomicI64::new(0);
        static OVERLAPS: AtomicU64 = AtomicU64::new(0);
        static WRONG: AtomicU64 = AtomicU64::new(0);
        let go = Arc::new(AtomicBool::new(false));
        let hs: Vec<_> = (0..8usize)
            .map(|tid| {
                let go = go.clone();
                std::thread::spawn(move || {
                    while !go.load(Ordering::Acquire) {
                        std::hint::spin_loop();
                    }
                    for round in 0..3 {
                        if (tid + round) % 2 == 0 {
                            let mut i = InjectorPP::new();
                            if INSIDE.fetch_add(1, Ordering::SeqCst) != 0 {
                                OVERLAPS.fetch_add(1, Ordering::SeqCst);
                            }
                            let f = TF[tid % 16];
                            i.when_called(injectorpp::func!(fn (shared)(i32) -> i32)).will_execute_raw(injectorpp::func!(f, fn(i32) -> i32));
                            for _ in 0..50 {
                                if shared(0) != 0x100 + (tid % 16) as i32 {
                                    WRONG.fetch_add(1, Ordering::SeqCst);
                                }
                            }
                            INSIDE.fetch_sub(1, Ordering::SeqCst);
                            drop(i);
                        } else {
                            let p = InjectorPP::prevent();
                            if INSIDE.fetch_add(1, Ordering::SeqCst) != 0 {
                                OVERLAPS.fetch_add(1, Ordering::SeqCst);
                            }
                            for _ in 0..50 {
                                if shared(0) != ORIG {
                                    WRONG.fetch_add(1, Ordering::SeqCst);
                                }
                            }
                            INSIDE.fetch_sub(1, Ordering::SeqCst);
                            drop(p);
                        }
                    }
                })
            })
            .collect();
        go.store(true, Ordering::Release);
        let mut died = 0;
        for h in hs {
            if h.join().is_err() {
                died += 1;
            }
        }
        let (ov, wr) = (OVERLAPS.load(Ordering::SeqCst), WRONG.load(Ordering::SeqCst));
        let d = J::new().n("overlapping_holders_seen", ov).n("wrong_observations", wr).n("threads_that_panicked", died);
        let sig = if ov > 0 { "two-holders-at-once" } else if wr > 0 { "holder-observed-another-threads-fake" } else if died > 0 { "thread-panicked-while-acquiring" } else { "" };
        out::outcome(idx, &class, if sig.is_empty() { Verdict::Held } else { Verdict::Violated }, sig, &d);
        if !sig.is_empty() {
            out::summary(&J::new().n("configs", 0));
            std::process::exit(75);
        }
    }
    for (idx, &(threads, total, dmode)) in configs.iter().enumerate() {
        let idx = idx as u64;
        if !ctx.mine(idx) {
            continue;
        }
        let class = format!("threads={}/delays={}", threads, ["none", "library-syscalls-50us..1ms", "library-syscalls-mixed+yield"][dmode as usize]);
        out::intent(idx, &class, &J::new().n("threads", threads).n("acquisitions", total).s("crash_sig", "exclusion-workload"));
        for a in [&V_VERDICT_DISTURBED, &V_TWO_HOLDERS, &V_OWNER, &V_PREVENTER_SAW_FAKE, &V_INJECTOR_SAW_FOREIGN, &V_FIRST_CALL_NOT_ORIGINAL, &V_PLAIN_LOST_UPDATE, &ACQ, &CONTENDED, &MAX_WAIT_US] {
            a.store(0, Ordering::SeqCst);
        }
        for a in TRANS.iter().chain(BYKIND.iter()) {
            a.store(0, Ordering::SeqCst);
        }
        WITNESS.lock().unwrap().clear();
        ORDER_LOG.lock().unwrap().clear();
        unsafe {
            std::ptr::write_volatile(std::ptr::addr_of_mut!(PLAIN), 0);
        }
        PLAIN_SHADOW.store(0, Ordering::SeqCst);
        let per = total / threads as u64;
        let barrier = Arc::new(Barrier::new(threads));
        let done = Arc::new(AtomicBool::new(false));
        let starved = Arc::new(AtomicBool::new(false));
        // bounded hand-over monitor: nobody holds a guard object, yet a waiter stays blocked
        let mon = {
            let done = done.clone();
            let starved = starved.clone();
            std::thread::spawn(move || {
                let mut idle_since: Option<Instant> = None;
                while !done.load(Ordering::SeqCst) {
                    std::thread::sleep(Duration::from_millis(20));
                    if LIVE_GUARDS.load(Ordering::SeqCst) == 0 && WAITERS.load(Ordering::SeqCst) > 0 {
                        let s = *idle_since.get_or_insert_with(Instant::now);
                        if s.elapsed() > Duration::from_secs(30) {
                            starved.store(true, Ordering::SeqCst);
                            return;
                        }
                    } else {
                        idle_since = None;
                    }
                }
            })
        };
        let t0 = Instant::now();
        let hs: Vec<_> = (0..threads)
            .map(|tid| {
                let barrier = barrier.clone();
                let seed = ctx.seed;
                std::thread::spawn(move || {
                    let mut rng = Rng::new(seed ^ hash64((idx << 8) | tid as u64));
                    barrier.wait();
                    for e in 0..per {
                        let kind = match rng.below(20) {
                            0..=3 => 0,
                            4 => 1,
                            5 => 2,
                            6 => 3,
                            7 | 8 => 4,
                            9 => 5,
                            10 | 11 => 6,
                            12 => 7,
                            13 => 8,
                            14 => 9,
                            15..=17 => 10,
                            18 => 2,
                            _ => 4,
                        };
                        if dmode > 0 {
                            let ns = *rng.pick(&[0u64, 0, 50_000, 200_000, 1_000_000]);
                            let ns = if dmode == 2 && rng.chance(1, 2) { 0 } else { ns };
                            ip::set_delay(ip::K_MPROTECT, ns);
                            ip::set_delay(ip::K_MUNMAP, ns / 2);
                            ip::set_delay(ip::K_FLUSH, ns / 4);
                        }
                        let mut r2 = rng.fork(e);
                        let _ = std::panic::catch_unwind(std::panic::AssertUnwindSafe(|| one_scope(tid, kind, e, &mut r2, true)));
                        if dmode == 2 && rng.chance(1, 4) {
                            std::thread::yield_now();
                        }
                    }
                })
            })
            .collect();
        let mut joined = 0;
        for h in hs {
            // a starved waiter never returns: poll the monitor's flag instead of blocking forever
            loop {
                if h.is_finished() {
                    let _ = h.join();
                    joined += 1;
                    break;
                }
                if starved.load(Ordering::SeqCst) {
                    break;
                }
                std::thread::sleep(Duration::from_millis(2));
            }
            if starved.load(Ordering::SeqCst) {
                break;
            }
        }
        ip::disarm_all();
        // final hand-over probe: all scripts are over, a fresh thread must get both kinds of guard
        let mut final_ok = false;
        if !starved.load(Ordering::SeqCst) {
            let (tx, rx) = std::sync::mpsc::channel();
            std::thread::spawn(move || {
                {
                    let mut i = InjectorPP::new();
                    i.when_called(injectorpp::func!(fn (shared)(i32) -> i32)).will_execute_raw(injectorpp::func!(fn (TF[0])(i32) -> i32));
                    let a = shared(2);
                    drop(i);
                    let p = InjectorPP::prevent();
                    let b = shared(2);
                    drop(p);
                    let _ = tx.send((a, b));
                }
            });
            match rx.recv_timeout(Duration::from_secs(30)) {
                Ok((a, b)) => final_ok = a == 0x100 && b == ORIG + 2,
                Err(_) => starved.store(true, Ordering::SeqCst),
            }
        }
        done.store(true, Ordering::SeqCst);
        let _ = mon.join();
        let plain = unsafe { std::ptr::read_volatile(std::ptr::addr_of!(PLAIN)) };
        if plain != PLAIN_SHADOW.load(Ordering::SeqCst) {
            V_PLAIN_LOST_UPDATE.store(PLAIN_SHADOW.load(Ordering::SeqCst) - plain.min(PLAIN_SHADOW.load(Ordering::SeqCst)), Ordering::SeqCst);
        }
        // distinct acquisition-order windows
        let order = ORDER_LOG.lock().unwrap().clone();
        let mut windows = std::collections::BTreeSet::new();
        for w in order.chunks(8) {
            if w.len() == 8 {
                windows.insert(w.to_vec());
            }
        }
        let mut trans = 0;
        let mut tj = J::new();
        let names = ["inj+fake/drop", "inj+fake/panic", "inj/drop", "inj/panic", "prevent/drop", "prevent/panic", "inj+times-unmet/exit-panics", "inj+async-fake-first", "inj+async-unchecked-fake-first", "inj+unchecked-fake-first", "inj+times-met/silent-exit"];
        for a in 0..NKIND {
            for b in 0..NKIND {
                let n = TRANS[a * NKIND + b].load(Ordering::SeqCst);
                if n > 0 {
                    trans += 1;
                    tj = tj.n(&format!("{}->{}", names[a], names[b]), n);
                }
            }
        }
        let byk = (0..NKIND).fold(J::new(), |j, k| j.n(names[k], BYKIND[k].load(Ordering::SeqCst)));
        let d = J::new()
            .n("threads", threads)
            .n("threads_joined", joined)
            .n("acquisitions", ACQ.load(Ordering::SeqCst))
            .o("acquisitions_by_kind", byk)
            .n("contended_handovers", CONTENDED.load(Ordering::SeqCst))
            .n("distinct_transitions", trans)
            .o("transitions", tj)
            .n("distinct_order_windows_of_8", windows.len())
            .n("max_wait_us", MAX_WAIT_US.load(Ordering::SeqCst))
            .n("delays_injected", ip::N_DELAYS.load(Ordering::SeqCst))
            .n("plain_cell", plain)
            .n("plain_cell_expected", PLAIN_SHADOW.load(Ordering::SeqCst))
            .b("final_handover_ok", final_ok)
            .b("tsan_build", tsan)
            .n("injectors_obtained_through_Default", VIA_DEFAULT.load(Ordering::SeqCst))
            .n("acquisitions_by_a_thread_with_a_stale_unpark_token", STALE_TOKENS.load(Ordering::SeqCst))
            .n("wall_ms", t0.elapsed().as_millis())
            .arr_s("witness", &WITNESS.lock().unwrap().clone());
        let sig = if V_TWO_HOLDERS.load(Ordering::SeqCst) > 0 {
            "two-holders-at-once"
        } else if V_FIRST_CALL_NOT_ORIGINAL.load(Ordering::SeqCst) > 0 {
            "new-holder-saw-predecessors-fake"
        } else if V_PREVENTER_SAW_FAKE.load(Ordering::SeqCst) > 0 {
            "preventer-holder-saw-a-fake"
        } else if V_INJECTOR_SAW_FOREIGN.load(Ordering::SeqCst) > 0 {
            "injector-holder-did-not-see-its-own-fake"
        } else if V_OWNER.load(Ordering::SeqCst) > 0 {
            "owner-cell-overwritten"
        } else if V_VERDICT_DISTURBED.load(Ordering::SeqCst) > 0 {
            "holders-call-count-verdict-disturbed-by-another-thread"
        } else if V_PLAIN_LOST_UPDATE.load(Ordering::SeqCst) > 0 {
            "lost-update-on-lock-protected-cell"
        } else if starved.load(Ordering::SeqCst) {
            "waiter-not-served-within-30s-with-no-guard-alive"
        } else if !final_ok {
            "fresh-thread-after-the-run-did-not-see-normal-behaviour"
        } else {
            ""
        };
        let v = if sig.is_empty() { Verdict::Held } else { Verdict::Violated };
        out::outcome(idx, &class, v, sig, &d);
        if starved.load(Ordering::SeqCst) {
            out::summary(&J::new().n("configs", idx + 1));
            std::process::exit(75);
        }
    }
    // ---- fork() while holding an injector: the child inherits the live injector (patches and all), so in the child,
    // too, nobody else may be given a guard while it is alive
    {
        let idx = configs.len() as u64 + 5;
        if ctx.mine(idx) && !tsan {
            let class = "fork-while-holding/another-thread-in-the-child-asks-for-a-guard".to_string();
            out::intent(idx, &class, &J::new().s("crash_sig", "fork-while-holding"));
            let mut inj = InjectorPP::new();
            inj.when_called(injectorpp::func!(fn (shared)(i32) -> i32)).will_execute_raw(injectorpp::func!(fn (t9)(i32) -> i32));
            let pid = unsafe { libc::fork() };
            if pid == 0 {
                let (tx, rx) = std::sync::mpsc::channel::<i32>();
                std::thread::spawn(move || {
                    let p = InjectorPP::prevent(); // must wait: the forked copy of the injector is alive
                    let v = shared(0);
                    let _ = tx.send(v);
                    drop(p);
                });
                let code = match rx.recv_timeout(Duration::from_millis(1500)) {
                    Ok(v) if v == ORIG => 4, // admitted (and, oddly, saw the original)
                    Ok(_) => 3,              // admitted and saw the holder's fake under its preventer
                    Err(_) => 0,             // kept waiting
                };
                unsafe { libc::_exit(code) };
            }
            let mut status = 0i32;
            let wr = if pid > 0 { unsafe { libc::waitpid(pid, &mut status, 0) } } else { -1 };
            drop(inj);
            let d = J::new().n("child_wait_status", status);
            if pid < 0 || wr < 0 {
                out::outcome(idx, &class, Verdict::Inconclusive, "could-not-fork", &d);
            } else if libc::WIFEXITED(status) && libc::WEXITSTATUS(status) == 0 {
                out::outcome(idx, &class, Verdict::Held, "", &d);
            } else if libc::WIFEXITED(status) && (libc::WEXITSTATUS(status) == 3 || libc::WEXITSTATUS(status) == 4) {
                out::outcome(idx, &class, Verdict::Violated, "two-holders-at-once", &d.s("where", "in a forked child whose forking thread held an injector"));
            } else {
                out::outcome(idx, &class, Verdict::Inconclusive, "forked-child-ended-unexpectedly", &d);
            }
        }
    }
    // ---- many acquisitions in one process: 70 000 uncontended guards one after the other (a lock that keeps a
    // 16-bit ticket, generation or recursion count somewhere wraps in here), then another thread must still get in
    {
        let idx = configs.len() as u64 + 4;
        if ctx.mine(idx) && !tsan {
            let class = "many-acquisitions/70000-then-a-fresh-thread".to_string();
            out::intent(idx, &class, &J::new().s("crash_sig", "many-acquisitions"));
            let (tx, rx) = std::sync::mpsc::channel::<u64>();
            let h = std::thread::spawn(move || {
                for k in 0..70_000u64 {
                    if k % 2 == 0 {
                        drop(InjectorPP::prevent());
                    } else {
                        drop(InjectorPP::new());
                    }
                    if k % 1000 == 999 {
                        let _ = tx.send(k + 1);
                    }
                }
            });
            let mut done = 0u64;
            let mut stuck = false;
            loop {
                match rx.recv_timeout(Duration::from_secs(30)) {
                    Ok(k) => done = k,
                    Err(std::sync::mpsc::RecvTimeoutError::Timeout) => {
                        stuck = true;
                        break;
                    }
                    Err(_) => break,
                }
            }
            let mut sig = "";
            let mut d = J::new().n("acquisitions_completed", done);
            if stuck || done < 70_000 {
                sig = "waiter-not-served-within-30s-with-no-guard-alive";
                d = d.s("what", "an uncontended acquisition did not come back");
            } else {
                let _ = h.join();
                let (tx2, rx2) = std::sync::mpsc::channel::<i32>();
                std::thread::spawn(move || {
                    let mut i = InjectorPP::new();
                    i.when_called(injectorpp::func!(fn (shared)(i32) -> i32)).will_execute_raw(injectorpp::func!(fn (t9)(i32) -> i32));
                    let v = shared(0);
                    drop(i);
                    let _ = tx2.send(v);
                });
                match rx2.recv_timeout(Duration::from_secs(30)) {
                    Ok(0x109) => {}
                    Ok(v) => {
                        sig = "fresh-thread-after-the-run-did-not-see-normal-behaviour";
                        d = d.n("saw", v);
                    }
                    Err(_) => sig = "waiter-not-served-within-30s-with-no-guard-alive",
                }
            }
            out::outcome(idx, &class, if sig.is_empty() { Verdict::Held } else { Verdict::Violated }, sig, &d);
            if !sig.is_empty() {
                out::summary(&J::new().n("many_acquisitions", done));
                std::process::exit(75);
            }
        }
    }
    // ---- a healthy holder that simply takes long (thorough tier only: 40 s): the waiter gets its turn when the
    // holder lets go, however long that takes - it is neither turned away nor does it give up
    {
        let idx = configs.len() as u64 + 3;
        if ctx.thorough && ctx.mine(idx) && !tsan {
            let class = "long-hold/waiter-queued-for-40s".to_string();
            out::intent(idx, &class, &J::new().s("crash_sig", "long-hold"));
            let holder = InjectorPP::prevent();
            let (tx, rx) = std::sync::mpsc::channel::<Result<i32, String>>();
            std::thread::spawn(move || {
                let r = std::panic::catch_unwind(|| {
                    let mut i = InjectorPP::new();
                    i.when_called(injectorpp::func!(fn (shared)(i32) -> i32)).will_execute_raw(injectorpp::func!(fn (t9)(i32) -> i32));
                    let v = shared(0);
                    drop(i);
                    v
                });
                let _ = tx.send(r.map_err(|p| crate::panicobs::payload_msg(&p)));
            });
            let early = rx.recv_timeout(Duration::from_secs(40));
            let sig;
            let mut d = J::new();
            match early {
                Ok(Ok(_)) => sig = "two-holders-at-once",
                Ok(Err(m)) => {
                    sig = "waiter-turned-away-while-the-holder-was-still-at-work";
                    d = d.s("waiter_panic", &m);
                }
                Err(_) => {
                    drop(holder);
                    match rx.recv_timeout(Duration::from_secs(30)) {
                        Ok(Ok(v)) if v == 0x109 => sig = "",
                        Ok(other) => {
                            sig = "waiter-did-not-get-a-working-guard-after-a-long-wait";
                            d = d.s("waiter", &format!("{:?}", other));
                        }
                        Err(_) => sig = "waiter-not-served-within-30s-with-no-guard-alive",
                    }
                }
            }
            out::outcome(idx, &class, if sig.is_empty() { Verdict::Held } else { Verdict::Violated }, sig, &d);
        }
    }
    // ---- a second guard asked for by the thread that already holds one. In the library as it stands this
    // blocks for good (the thread waits for itself), which is mutual exclusion taken literally; the thread is
    // then lost and keeps the lock, so each of these trials is the last thing its process does (exit 75 = the
    // parent starts a new child for the next case). If the second guard IS granted, the trial goes on to see
    // whether that lets two threads in at once, or lets a preventer holder see a fake.
    for (k, script) in ["injector-in-injector/outer-dropped-first", "preventer-in-injector", "injector-in-preventer/outer-dropped-first"].iter().enumerate() {
        let idx = configs.len() as u64 + k as u64;
        if !ctx.mine(idx) || tsan {
            continue;
        }
        let class = format!("second-guard-on-the-holding-thread/{}", script);
        out::intent(idx, &class, &J::new().s("crash_sig", "nested-guard"));
        let (tx, rx) = std::sync::mpsc::channel::<(u32, i32)>();
        let (go_tx, go_rx) = std::sync::mpsc::channel::<()>();
        let kk = k;
        std::thread::spawn(move || {
            let _lib = ip::LibScope::enter();
            match kk {
                0 => {
                    let outer = InjectorPP::new();
                    let _ = tx.send((1, 0));
                    let mut inner = InjectorPP::new(); // blocks here in the library as it stands
                    inner.when_called(injectorpp::func!(fn (shared)(i32) -> i32)).will_execute_raw(injectorpp::func!(fn (t9)(i32) -> i32));
                    drop(outer);
                    let _ = tx.send((2, shared(0)));
                    let _ = go_rx.recv(); // keep `inner` alive until the main thread has looked
                    drop(inner);
                }
                1 => {
                    let mut outer = InjectorPP::new();
                    outer.when_called(injectorpp::func!(fn (shared)(i32) -> i32)).will_execute_raw(injectorpp::func!(fn (t9)(i32) -> i32));
                    let _ = tx.send((1, 0));
                    let p = InjectorPP::prevent(); // blocks here in the library as it stands
                    let _ = tx.send((2, shared(0)));
                    let _ = go_rx.recv();
                    drop(p);
                    drop(outer);
                }
                _ => {
                    let outer = InjectorPP::prevent();
                    let _ = tx.send((1, 0));
                    let mut inner = InjectorPP::new(); // blocks here in the library as it stands
                    inner.when_called(injectorpp::func!(fn (shared)(i32) -> i32)).will_execute_raw(injectorpp::func!(fn (t9)(i32) -> i32));
                    drop(outer);
                    let _ = tx.send((2, shared(0)));
                    let _ = go_rx.recv();
                    drop(inner);
                }
            }
        });
        let first = rx.recv_timeout(Duration::from_secs(20));
        let second = rx.recv_timeout(Duration::from_millis(1500));
        let mut sig = "";
        let mut d = J::new().s("script", script);
        match (first, second) {
            (Ok(_), Ok((_, seen))) => {
                d = d.b("second_guard_granted_to_the_holding_thread", true).n("holder_sees", seen);
                if k == 1 && seen != ORIG {
                    // it holds a preventer and calls the function: a fake answered
                    sig = "preventer-holder-observed-a-fake";
                }
                // the thread still holds its inner guard: nobody else may be admitted now
                let (utx, urx) = std::sync::mpsc::channel::<i32>();
                std::thread::spawn(move || {
                    let p = InjectorPP::prevent();
                    let _ = utx.send(shared(0));
                    drop(p);
                });
                match urx.recv_timeout(Duration::from_millis(1500)) {
                    Ok(v) => {
                        d = d.b("another_thread_admitted_while_the_inner_guard_lives", true).n("it_saw", v);
                        if sig.is_empty() {
                            sig = "two-holders-at-once";
                        }
                    }
                    Err(_) => d = d.b("another_thread_admitted_while_the_inner_guard_lives", false),
                }
                let _ = go_tx.send(());
            }
            (Ok(_), Err(_)) => d = d.b("second_guard_granted_to_the_holding_thread", false).s("note", "the holding thread waits for itself: exclusion holds, nothing further to observe"),
            (Err(_), _) => {
                out::outcome(idx, &class, Verdict::Inconclusive, "first-guard-not-obtained-within-20s", &d);
                out::summary(&J::new().n("nested_guard_trials", 1));
                std::process::exit(75);
            }
        }
        out::outcome(idx, &class, if sig.is_empty() { Verdict::Held } else { Verdict::Violated }, sig, &d);
        out::summary(&J::new().n("nested_guard_trials", 1));
        std::process::exit(75);
    }
    out::summary(&J::new().n("configs", configs.len()).o("counters", ip::counters_json()));
}
