//! C14 — faked async functions complete at once with the value; others are untouched.
//! M7: a hand-written executor that polls exactly once per step and counts; side-effect counters in
//! every original body; `async_return!` value expressions that draw from a counter (freshness).
use crate::interpose as ip;
use crate::out::{self, Verdict, J};
use crate::rng::{hash64, Rng};
use crate::Ctx;
use injectorpp::interface::injector::*;
use std::future::Future;
use std::pin::Pin;
use std::sync::atomic::{AtomicU64, AtomicUsize, Ordering};
use std::sync::Arc;
use std::task::{Context, Poll, Wake, Waker};

pub const NF: usize = 15;
static BODY: [AtomicUsize; NF] = [const { AtomicUsize::new(0) }; NF];
static FRESH: AtomicU64 = AtomicU64::new(1);
static FRESH_UNIT: AtomicU64 = AtomicU64::new(0);

struct YieldOnce(bool);
impl Future for YieldOnce {
    type Output = ();
    fn poll(mut self: Pin<&mut Self>, cx: &mut Context<'_>) -> Poll<()> {
        if self.0 {
            Poll::Ready(())
        } else {
            self.0 = true;
            cx.waker().wake_by_ref();
            Poll::Pending
        }
    }
}

pub async fn af_unit() {
    BODY[0].fetch_add(1, Ordering::SeqCst);
}
pub async fn af_u32_a(x: u32) -> u32 {
    BODY[1].fetch_add(1, Ordering::SeqCst);
    x.wrapping_add(11)
}
pub async fn af_u32_b(x: u32) -> u32 {
    BODY[2].fetch_add(1, Ordering::SeqCst);
    x.wrapping_add(22)
}
pub async fn af_u32_c(r: &u32) -> u32 {
    BODY[3].fetch_add(1, Ordering::SeqCst);
    r.wrapping_add(33)
}
pub async fn af_bool(b: bool) -> bool {
    BODY[4].fetch_add(1, Ordering::SeqCst);
    !b
}
pub async fn af_string(s: &str) -> String {
    BODY[5].fetch_add(1, Ordering::SeqCst);
    format!("orig:{s}")
}
pub async fn af_arr(seed: u64) -> [u64; 32] {
    BODY[6].fetch_add(1, Ordering::SeqCst);
    let mut a = [0u64; 32];
    for (i, v) in a.iter_mut().enumerate() {
        *v = seed.wrapping_mul(i as u64 + 1);
    }
    a
}
pub async fn af_res(n: usize) -> Result<Vec<u8>, String> {
    BODY[7].fetch_add(1, Ordering::SeqCst);
    if n % 2 == 0 {
        Ok(vec![n as u8; n % 7])
    } else {
        Err(format!("odd {n}"))
    }
}
pub async fn af_yield(x: u32) -> u32 {
    YieldOnce(false).await;
    BODY[8].fetch_add(1, Ordering::SeqCst);
    x.wrapping_add(88)
}
/// two async functions that are never faked: a background executor thread awaits them for the whole run
pub async fn af_bg1(x: u32) -> u32 {
    x.wrapping_mul(3)
}
pub async fn af_bg2(s: &str) -> usize {
    YieldOnce(false).await;
    s.len() + 1
}
pub async fn af_opt(n: u64) -> Option<Box<u64>> {
    BODY[10].fetch_add(1, Ordering::SeqCst);
    if n % 3 == 0 {
        None
    } else {
        Some(Box::new(n + 1))
    }
}
pub async fn af_f64(x: f64) -> f64 {
    BODY[11].fetch_add(1, Ordering::SeqCst);
    x * 1.5
}
pub async fn af_u8(x: u8) -> u8 {
    BODY[12].fetch_add(1, Ordering::SeqCst);
    x.wrapping_add(5)
}
pub async fn af_pair(x: u64) -> (u64, String) {
    BODY[13].fetch_add(1, Ordering::SeqCst);
    (x + 1, format!("p{x}"))
}
/// a large by-memory output that owns heap memory and counts its constructions and drops
pub struct BigDrop {
    pub a: [u64; 8],
    pub v: Vec<u64>,
    pub tag: u64,
}
pub static BIG_NEW: AtomicU64 = AtomicU64::new(0);
pub static BIG_DROP: AtomicU64 = AtomicU64::new(0);
impl BigDrop {
    pub fn new(tag: u64) -> BigDrop {
        BIG_NEW.fetch_add(1, Ordering::SeqCst);
        BigDrop { a: [tag; 8], v: vec![tag ^ 0x55; 5], tag }
    }
    fn digest(&self) -> u64 {
        if self.a.iter().any(|x| *x != self.tag) || self.v.len() != 5 || self.v.iter().any(|x| *x != self.tag ^ 0x55) {
            return u64::MAX; // torn value
        }
        self.tag
    }
}
impl Drop for BigDrop {
    fn drop(&mut self) {
        BIG_DROP.fetch_add(1, Ordering::SeqCst);
    }
}
pub async fn af_bigdrop(x: u64) -> BigDrop {
    BODY[14].fetch_add(1, Ordering::SeqCst);
    BigDrop::new(x | (1 << 40))
}
#[inline(never)]
pub fn sync_helper() -> u32 {
    std::hint::black_box(0x5E1F)
}
pub struct Svc {
    pub base: u32,
}
impl Svc {
    pub async fn get(&self, k: u32) -> u32 {
        BODY[9].fetch_add(1, Ordering::SeqCst);
        self.base.wrapping_add(k)
    }
}

// ------------------------------------------------------------------ M7 executor
struct CountWaker(AtomicUsize);
impl Wake for CountWaker {
    fn wake(self: Arc<Self>) {
        self.0.fetch_add(1, Ordering::SeqCst);
    }
    fn wake_by_ref(self: &Arc<Self>) {
        self.0.fetch_add(1, Ordering::SeqCst);
    }
}
/// polls exactly once per step; returns (value, number of polls, first poll was Ready)
pub fn run_counting<F: Future>(f: F) -> (F::Output, usize, bool) {
    let cw = Arc::new(CountWaker(AtomicUsize::new(0)));
    let waker = Waker::from(cw.clone());
    let mut cx = Context::from_waker(&waker);
    let mut f = std::pin::pin!(f);
    let mut polls = 0;
    let mut first_ready = false;
    loop {
        polls += 1;
        match f.as_mut().poll(&mut cx) {
            Poll::Ready(v) => {
                if polls == 1 {
                    first_ready = true;
                }
                return (v, polls, first_ready);
            }
            Poll::Pending => {
                if polls > 64 {
                    panic!("USER: future did not complete in 64 polls");
                }
            }
        }
    }
}

fn h_str(s: &str) -> u64 {
    let mut h = 0xcbf29ce484222325u64;
    for b in s.bytes() {
        h = (h ^ b as u64).wrapping_mul(0x100000001b3);
    }
    h
}
fn h_arr(a: &[u64; 32]) -> u64 {
    a.iter().fold(7u64, |h, v| hash64(h ^ *v))
}
fn h_res(r: &Result<Vec<u8>, String>) -> u64 {
    match r {
        Ok(v) => v.iter().fold(100u64, |h, b| hash64(h ^ *b as u64)),
        Err(s) => h_str(s) ^ 1,
    }
}

/// original result of function i for argument a (reference model)
fn orig(i: usize, a: u64) -> u64 {
    match i {
        0 => 0,
        1 => (a as u32).wrapping_add(11) as u64,
        2 => (a as u32).wrapping_add(22) as u64,
        3 => (a as u32).wrapping_add(33) as u64,
        4 => (a % 2 == 0) as u64,
        5 => h_str(&format!("orig:s{}", a % 100)),
        6 => {
            let mut arr = [0u64; 32];
            for (k, v) in arr.iter_mut().enumerate() {
                *v = a.wrapping_mul(k as u64 + 1);
            }
            h_arr(&arr)
        }
        7 => {
            let n = (a % 50) as usize;
            if n % 2 == 0 {
                h_res(&Ok(vec![n as u8; n % 7]))
            } else {
                h_res(&Err(format!("odd {n}")))
            }
        }
        8 => (a as u32).wrapping_add(88) as u64,
        10 => {
            if a % 3 == 0 {
                1
            } else {
                hash64(a + 1)
            }
        }
        11 => ((a % 1000) as f64 * 1.5).to_bits(),
        12 => (a as u8).wrapping_add(5) as u64,
        13 => hash64(a + 1) ^ h_str(&format!("p{a}")),
        14 => a | (1 << 40),
        _ => 1000u32.wrapping_add(a as u32) as u64,
    }
}
fn orig_polls(i: usize) -> usize {
    if i == 8 {
        2
    } else {
        1
    }
}

#[derive(Clone, Copy, Debug, PartialEq)]
enum Mode {
    Direct,
    Nested,
}

static SVC: Svc = Svc { base: 1000 };

/// await function i with argument a; returns (result hash/value, polls, first-poll-ready)
fn await_fn(i: usize, a: u64, mode: Mode) -> (u64, usize, bool) {
    macro_rules! go {
        ($fut:expr, $map:expr) => {{
            match mode {
                Mode::Direct => {
                    let (v, p, f) = run_counting($fut);
                    ($map(v), p, f)
                }
                Mode::Nested => {
                    let (v, p, f) = run_counting(async { $fut.await });
                    ($map(v), p, f)
                }
            }
        }};
    }
    match i {
        0 => go!(af_unit(), |_v: ()| 0u64),
        1 => go!(af_u32_a(a as u32), |v: u32| v as u64),
        2 => go!(af_u32_b(a as u32), |v: u32| v as u64),
        3 => {
            let r = a as u32;
            go!(af_u32_c(&r), |v: u32| v as u64)
        }
        4 => go!(af_bool(a % 2 == 1), |v: bool| v as u64),
        5 => {
            let s = format!("s{}", a % 100);
            go!(af_string(&s), |v: String| h_str(&v))
        }
        6 => go!(af_arr(a), |v: [u64; 32]| h_arr(&v)),
        7 => go!(af_res((a % 50) as usize), |v: Result<Vec<u8>, String>| h_res(&v)),
        8 => go!(af_yield(a as u32), |v: u32| v as u64),
        10 => go!(af_opt(a), |v: Option<Box<u64>>| match v {
            None => 1,
            Some(b) => hash64(*b),
        }),
        11 => go!(af_f64((a % 1000) as f64), |v: f64| v.to_bits()),
        12 => go!(af_u8(a as u8), |v: u8| v as u64),
        13 => go!(af_pair(a), |v: (u64, String)| hash64(v.0) ^ h_str(&v.1)),
        14 => go!(af_bigdrop(a), |v: BigDrop| v.digest()),
        _ => go!(SVC.get(a as u32), |v: u32| v as u64),
    }
}

/// what a faked function must produce: either a constant, or a fresh value (strictly newer than
/// every value seen before for that function)
#[derive(Clone, Copy, Debug, PartialEq)]
enum Src {
    Original,
    Const(u64),
    Fresh,
}

fn fresh_val() -> u64 {
    FRESH.fetch_add(1, Ordering::SeqCst)
}

/// install a fake on function i; variant 0 = fresh, 1 = constant, 2 = unchecked (constant)
fn fake_fn(inj: &mut InjectorPP, i: usize, variant: usize) -> Src {
    let fresh = variant % 3 == 0;
    let unchecked = variant % 3 == 2;
    match i {
        0 => {
            inj.when_called_async(injectorpp::async_func!(af_unit(), ())).will_return_async(injectorpp::async_return!(
                {
                    FRESH_UNIT.fetch_add(1, Ordering::SeqCst);
                },
                ()
            ));
            Src::Const(0)
        }
        1 => {
            if fresh {
                inj.when_called_async(injectorpp::async_func!(af_u32_a(0), u32)).will_return_async(injectorpp::async_return!(fresh_val() as u32, u32));
                Src::Fresh
            } else if unchecked {
                unsafe {
                    inj.when_called_async_unchecked(injectorpp::async_func_unchecked!(af_u32_a(0))).will_return_async_unchecked(injectorpp::async_return_unchecked!(777_001, u32));
                }
                Src::Const(777_001)
            } else {
                inj.when_called_async(injectorpp::async_func!(af_u32_a(0), u32)).will_return_async(injectorpp::async_return!(777_001, u32));
                Src::Const(777_001)
            }
        }
        2 => {
            if fresh {
                inj.when_called_async(injectorpp::async_func!(af_u32_b(0), u32)).will_return_async(injectorpp::async_return!(fresh_val() as u32, u32));
                Src::Fresh
            } else {
                inj.when_called_async(injectorpp::async_func!(af_u32_b(0), u32)).will_return_async(injectorpp::async_return!(777_002, u32));
                Src::Const(777_002)
            }
        }
        3 => {
            if fresh {
                inj.when_called_async(injectorpp::async_func!(af_u32_c(&0), u32)).will_return_async(injectorpp::async_return!(fresh_val() as u32, u32));
                Src::Fresh
            } else {
                inj.when_called_async(injectorpp::async_func!(af_u32_c(&0), u32)).will_return_async(injectorpp::async_return!(777_003, u32));
                Src::Const(777_003)
            }
        }
        4 => {
            let b = variant % 2 == 0;
            if b {
                inj.when_called_async(injectorpp::async_func!(af_bool(false), bool)).will_return_async(injectorpp::async_return!(true, bool));
            } else {
                inj.when_called_async(injectorpp::async_func!(af_bool(false), bool)).will_return_async(injectorpp::async_return!(false, bool));
            }
            Src::Const(b as u64 + 2) // bool faked: compare specially (2 = false, 3 = true)
        }
        5 => {
            if fresh {
                inj.when_called_async(injectorpp::async_func!(af_string(""), String)).will_return_async(injectorpp::async_return!(format!("fresh{:020}", fresh_val()), String));
                Src::Fresh
            } else {
                inj.when_called_async(injectorpp::async_func!(af_string(""), String)).will_return_async(injectorpp::async_return!("constant".to_string(), String));
                Src::Const(h_str("constant"))
            }
        }
        6 => {
            inj.when_called_async(injectorpp::async_func!(af_arr(0), [u64; 32])).will_return_async(injectorpp::async_return!([fresh_val(); 32], [u64; 32]));
            Src::Fresh
        }
        7 => {
            if fresh {
                inj.when_called_async(injectorpp::async_func!(af_res(0), Result<Vec<u8>, String>)).will_return_async(injectorpp::async_return!(Err(format!("fresh{:020}", fresh_val())), Result<Vec<u8>, String>));
                Src::Fresh
            } else {
                inj.when_called_async(injectorpp::async_func!(af_res(0), Result<Vec<u8>, String>)).will_return_async(injectorpp::async_return!(Ok(vec![9u8; 3]), Result<Vec<u8>, String>));
                Src::Const(h_res(&Ok(vec![9u8; 3])))
            }
        }
        8 => {
            inj.when_called_async(injectorpp::async_func!(af_yield(0), u32)).will_return_async(injectorpp::async_return!(777_008, u32));
            Src::Const(777_008)
        }
        10 => {
            if fresh {
                inj.when_called_async(injectorpp::async_func!(af_opt(0), Option<Box<u64>>)).will_return_async(injectorpp::async_return!(Some(Box::new(fresh_val())), Option<Box<u64>>));
                Src::Fresh
            } else if unchecked {
                inj.when_called_async(injectorpp::async_func!(af_opt(0), Option<Box<u64>>)).will_return_async(injectorpp::async_return!(None, Option<Box<u64>>));
                Src::Const(1)
            } else {
                inj.when_called_async(injectorpp::async_func!(af_opt(0), Option<Box<u64>>)).will_return_async(injectorpp::async_return!(Some(Box::new(777_010)), Option<Box<u64>>));
                Src::Const(hash64(777_010))
            }
        }
        11 => {
            inj.when_called_async(injectorpp::async_func!(af_f64(0.0), f64)).will_return_async(injectorpp::async_return!(-2.5e300, f64));
            Src::Const((-2.5e300f64).to_bits())
        }
        12 => {
            inj.when_called_async(injectorpp::async_func!(af_u8(0), u8)).will_return_async(injectorpp::async_return!(0xA7, u8));
            Src::Const(0xA7)
        }
        13 => {
            if fresh {
                inj.when_called_async(injectorpp::async_func!(af_pair(0), (u64, String))).will_return_async(injectorpp::async_return!((fresh_val(), "fresh".to_string()), (u64, String)));
                Src::Fresh
            } else {
                inj.when_called_async(injectorpp::async_func!(af_pair(0), (u64, String))).will_return_async(injectorpp::async_return!((13, "thirteen".to_string()), (u64, String)));
                Src::Const(hash64(13) ^ h_str("thirteen"))
            }
        }
        14 => {
            inj.when_called_async(injectorpp::async_func!(af_bigdrop(0), BigDrop)).will_return_async(injectorpp::async_return!(BigDrop::new(fresh_val() | (1 << 41)), BigDrop));
            Src::Fresh
        }
        _ => {
            inj.when_called_async(injectorpp::async_func!(SVC.get(0), u32)).will_return_async(injectorpp::async_return!(777_009, u32));
            Src::Const(777_009)
        }
    }
}

/// Check one await against the model. For Fresh sources the raw value cannot be predicted; the
/// freshness oracle is: the hash differs from every hash seen before for that function.
fn check_await(i: usize, a: u64, mode: Mode, src: Src, seen: &mut Vec<std::collections::HashSet<u64>>, last_fresh: &mut [u64; NF]) -> Result<(), String> {
    let body0 = BODY[i].load(Ordering::SeqCst);
    let unit0 = FRESH_UNIT.load(Ordering::SeqCst);
    let (v, polls, first_ready) = await_fn(i, a, mode);
    let body1 = BODY[i].load(Ordering::SeqCst);
    match src {
        Src::Original => {
            if v != orig(i, a) {
                return Err(format!("un-faked fn {} returned {:#x}, original gives {:#x}", i, v, orig(i, a)));
            }
            if polls != orig_polls(i) {
                return Err(format!("un-faked fn {} needed {} polls, original needs {}", i, polls, orig_polls(i)));
            }
            if body1 != body0 + 1 {
                return Err(format!("un-faked fn {}: original body ran {} times", i, body1 - body0));
            }
        }
        Src::Const(c) => {
            if !first_ready || polls != 1 {
                return Err(format!("faked fn {} was not ready on its first poll ({} polls)", i, polls));
            }
            if body1 != body0 {
                return Err(format!("faked fn {} ran the original body", i));
            }
            let ok = if i == 4 { v == c - 2 } else { v == c };
            if !ok {
                return Err(format!("faked fn {} yielded {:#x}, wanted {:#x}", i, v, c));
            }
            if i == 0 && FRESH_UNIT.load(Ordering::SeqCst) != unit0 + 1 {
                return Err("faked unit fn: value expression evaluated != 1 time for this await".into());
            }
        }
        Src::Fresh => {
            if !first_ready || polls != 1 {
                return Err(format!("faked fn {} was not ready on its first poll ({} polls)", i, polls));
            }
            if body1 != body0 {
                return Err(format!("faked fn {} ran the original body", i));
            }
            if !seen[i].insert(v) {
                return Err(format!("faked fn {}: value {:#x} was seen before — not a fresh evaluation", i, v));
            }
            if matches!(i, 1 | 2 | 3) {
                if v <= last_fresh[i] {
                    return Err(format!("faked fn {}: value went backwards", i));
                }
                last_fresh[i] = v;
            }
        }
    }
    Ok(())
}

pub fn run(ctx: &Ctx) {
    let ncases = if ctx.n > 0 { ctx.n } else if ctx.thorough { 6000 } else { 240 };
    let mut awaits = 0u64;
    let mut fakes = 0u64;
    let mut thread_awaits = 0u64;
    let mut panic_exits = 0u64;
    let mut unmet_exits = 0u64;
    let mut seen: Vec<std::collections::HashSet<u64>> = (0..NF).map(|_| std::collections::HashSet::new()).collect();
    let mut last_fresh = [0u64; NF];
    // an executor thread that keeps awaiting two never-faked async functions while fakes are installed
    // and removed on this thread: "all other async functions behave as before ... on any executor thread"
    let stop = Arc::new(std::sync::atomic::AtomicBool::new(false));
    let bg_awaits = Arc::new(AtomicU64::new(0));
    let bg_bad = Arc::new(AtomicU64::new(0));
    let bg = {
        let (stop, n, bad) = (stop.clone(), bg_awaits.clone(), bg_bad.clone());
        std::thread::spawn(move || {
            let mut k: u32 = 0;
            while !stop.load(Ordering::Relaxed) {
                k = k.wrapping_add(1);
                let (a, pa, _) = run_counting(af_bg1(k));
                let (b, pb, _) = run_counting(af_bg2("abc"));
                if a != k.wrapping_mul(3) || pa != 1 || b != 4 || pb != 2 {
                    bad.fetch_add(1, Ordering::SeqCst);
                }
                n.fetch_add(2, Ordering::Relaxed);
            }
        })
    };
    for idx in 0..ncases {
        if !ctx.mine(idx) {
            continue;
        }
        let mut rng = Rng::new(ctx.seed ^ hash64(idx ^ 0xC14));
        let nops = 4 + rng.below(20);
        let lifetimes = 1 + rng.below(3);
        let mut kinds = std::collections::BTreeSet::new();
        let mut ops_desc: Vec<String> = Vec::new();
        // pre-generate the history so that the intent record shows it
        #[derive(Clone, Debug)]
        enum Op {
            Fake(usize, usize),
            Await(usize, u64, Mode),
            Threads(usize),
        }
        let mut hist: Vec<Vec<Op>> = Vec::new();
        for _ in 0..lifetimes {
            let mut ops = Vec::new();
            for _ in 0..nops {
                let i = rng.below(NF as u64) as usize;
                match rng.below(10) {
                    0..=2 => ops.push(Op::Fake(i, rng.below(6) as usize)),
                    3 => ops.push(Op::Threads(i)),
                    _ => ops.push(Op::Await(i, rng.next() % 100_000, if rng.chance(1, 3) { Mode::Nested } else { Mode::Direct })),
                }
            }
            hist.push(ops);
        }
        for l in &hist {
            for o in l {
                match o {
                    Op::Fake(i, v) => {
                        kinds.insert(format!("fake{}", i));
                        ops_desc.push(format!("F{}v{}", i, v));
                    }
                    Op::Await(i, _, m) => {
                        ops_desc.push(format!("A{}{}", i, if *m == Mode::Nested { "n" } else { "" }));
                    }
                    Op::Threads(i) => {
                        kinds.insert("threads".to_string());
                        ops_desc.push(format!("T{}", i));
                    }
                }
            }
            ops_desc.push("|".into());
        }
        let refakes = {
            let mut c = 0;
            for l in &hist {
                let mut s = std::collections::HashSet::new();
                for o in l {
                    if let Op::Fake(i, _) = o {
                        if !s.insert(*i) {
                            c += 1;
                        }
                    }
                }
            }
            c
        };
        let class = format!("faked={:?}/refakes={}/lifetimes={}", kinds, (refakes as usize).min(3), lifetimes);
        out::intent(idx, &class, &J::new().s("history", &ops_desc.join(" ")).s("crash_sig", "async-history"));
        let mut err: Option<String> = None;
        'outer: for ops in &hist {
            let mut inj = ip::lib(InjectorPP::new);
            let mut model = [Src::Original; NF];
            // one lifetime in five also carries a counted fake of an ordinary function that is never called:
            // leaving the scope then panics inside the injector's own scope exit
            let unmet = rng.chance(1, 5);
            if unmet {
                ip::lib(|| inj.when_called(injectorpp::func!(fn (sync_helper)() -> u32)).will_execute(injectorpp::fake!(func_type: fn() -> u32, returns: 1, times: 1)));
            }
            for o in ops {
                match o {
                    Op::Fake(i, v) => {
                        let (f0, u0) = (FRESH.load(Ordering::SeqCst), FRESH_UNIT.load(Ordering::SeqCst));
                        model[*i] = ip::lib(|| fake_fn(&mut inj, *i, *v));
                        fakes += 1;
                        if FRESH.load(Ordering::SeqCst) != f0 || FRESH_UNIT.load(Ordering::SeqCst) != u0 {
                            // the value expression ran although nothing was awaited: what the first await gets
                            // is then not a fresh evaluation
                            err = Some(format!("faked fn {}: the value expression was evaluated at install time — not a fresh evaluation per await", i));
                            break 'outer;
                        }
                    }
                    Op::Await(i, a, m) => {
                        awaits += 1;
                        if let Err(e) = check_await(*i, *a, *m, model[*i], &mut seen, &mut last_fresh) {
                            err = Some(e);
                            break 'outer;
                        }
                        // a sibling with the same output type, awaited right after
                        let sib = [1usize, 2, 3, 8, 9][rng.below(5) as usize];
                        if sib != *i {
                            awaits += 1;
                            if let Err(e) = check_await(sib, *a, Mode::Direct, model[sib], &mut seen, &mut last_fresh) {
                                err = Some(format!("sibling check: {}", e));
                                break 'outer;
                            }
                        }
                    }
                    Op::Threads(i) => {
                        // 4 executor threads await function i while the injector lives on this thread
                        let i = *i;
                        let src = model[i];
                        let hs: Vec<_> = (0..4u64)
                            .map(|t| {
                                std::thread::spawn(move || {
                                    let mut out = Vec::new();
                                    for k in 0..6u64 {
                                        let body0 = BODY[i].load(Ordering::SeqCst);
                                        let (v, polls, fr) = await_fn(i, t * 10 + k, Mode::Direct);
                                        out.push((t * 10 + k, v, polls, fr, body0));
                                    }
                                    out
                                })
                            })
                            .collect();
                        let mut vals = Vec::new();
                        for h in hs {
                            match h.join() {
                                Ok(o) => vals.extend(o),
                                Err(_) => {
                                    err = Some("executor thread panicked".into());
                                    break 'outer;
                                }
                            }
                        }
                        thread_awaits += vals.len() as u64;
                        for (a, v, polls, fr, _b) in &vals {
                            let ok = match src {
                                Src::Original => *v == orig(i, *a) && *polls == orig_polls(i),
                                Src::Const(c) => *fr && *polls == 1 && (if i == 4 { *v == c - 2 } else { *v == c }),
                                Src::Fresh => *fr && *polls == 1 && seen[i].insert(*v),
                            };
                            if !ok {
                                err = Some(format!("on an executor thread: fn {} arg {} gave {:#x} in {} polls (model {:?})", i, a, v, polls, src));
                                break 'outer;
                            }
                        }
                    }
                }
            }
            // scope exit: by drop, or by a panic unwinding through the scope that owns the injector
            if rng.chance(1, 4) {
                panic_exits += 1;
                let r = std::panic::catch_unwind(std::panic::AssertUnwindSafe(|| {
                    ip::lib(|| {
                        let _owner = inj;
                        panic!("USER: the test body panics while async fakes are installed");
                    })
                }));
                if r.is_ok() {
                    err = Some("injected panic did not propagate".into());
                    break 'outer;
                }
            } else if unmet {
                // the scope is left normally but the injector's call-count verification panics
                unmet_exits += 1;
                // (whether it panics is C06's business; what is judged here is what the async functions do afterwards)
                let _ = std::panic::catch_unwind(std::panic::AssertUnwindSafe(|| ip::lib(|| drop(inj))));
            } else {
                ip::lib(|| drop(inj));
            }
            // original behaviour is back for every function
            for i in 0..NF {
                awaits += 1;
                if let Err(e) = check_await(i, 4242 + i as u64, Mode::Direct, Src::Original, &mut seen, &mut last_fresh) {
                    err = Some(format!("after the injector was gone: {}", e));
                    break 'outer;
                }
            }
        }
        if err.is_none() && BIG_DROP.load(Ordering::SeqCst) > BIG_NEW.load(Ordering::SeqCst) {
            err = Some(format!("a value of the large output type was dropped more often ({}) than values were made ({})", BIG_DROP.load(Ordering::SeqCst), BIG_NEW.load(Ordering::SeqCst)));
        }
        match err {
            None => out::outcome(idx, &class, Verdict::Held, "", &J::new().s("history", &ops_desc.join(" "))),
            Some(e) => {
                let sig = if e.contains("not ready on its first poll") {
                    "faked-await-not-ready-on-first-poll"
                } else if e.contains("ran the original body") {
                    "faked-await-ran-original-body"
                } else if e.contains("evaluated at install time") || e.contains("not a fresh evaluation") || e.contains("went backwards") || e.contains("evaluated != 1") {
                    "value-not-freshly-evaluated"
                } else if e.contains("un-faked") || e.contains("sibling") {
                    "other-async-function-affected"
                } else if e.contains("after the injector was gone") {
                    "original-not-back-after-drop"
                } else if e.contains("executor thread") {
                    "wrong-on-executor-thread"
                } else {
                    "faked-await-wrong-value"
                };
                out::outcome(idx, &class, Verdict::Violated, sig, &J::new().s("witness", &e).s("history", &ops_desc.join(" ")));
                out::summary(&J::new().n("awaits_checked", awaits));
                std::process::exit(75);
            }
        }
    }
    stop.store(true, Ordering::SeqCst);
    let _ = bg.join();
    if bg_bad.load(Ordering::SeqCst) > 0 {
        out::outcome(2_000_000_000 + ctx.shard, "background-executor-thread", Verdict::Violated, "other-async-function-affected-on-another-executor-thread", &J::new().n("bad_awaits", bg_bad.load(Ordering::SeqCst)));
    }
    out::summary(&J::new().n("awaits_by_the_background_executor_thread", bg_awaits.load(Ordering::SeqCst)).n("awaits_checked", awaits).n("fakes_installed", fakes).n("awaits_on_executor_threads", thread_awaits).n("lifetimes_ended_by_unwinding", panic_exits).n("lifetimes_ended_by_a_failed_call_count_verification", unmet_exits).n("async_functions", NF));
}
