//! M6 — panic observer: a hook that counts panics per thread and keeps the messages (and keeps
//! stderr quiet); the parent process reads the wait status for aborts and signals.
#![allow(dead_code)]
use std::cell::RefCell;
use std::sync::atomic::{AtomicU64, Ordering};

pub static TOTAL_PANICS: AtomicU64 = AtomicU64::new(0);
thread_local! {
    static MSGS: RefCell<Vec<String>> = const { RefCell::new(Vec::new()) };
}

pub fn install() {
    std::panic::set_hook(Box::new(|info| {
        TOTAL_PANICS.fetch_add(1, Ordering::SeqCst);
        let msg = if let Some(s) = info.payload().downcast_ref::<&str>() {
            s.to_string()
        } else if let Some(s) = info.payload().downcast_ref::<String>() {
            s.clone()
        } else {
            "<non-string panic>".to_string()
        };
        let _ = MSGS.try_with(|m| {
            if let Ok(mut m) = m.try_borrow_mut() {
                m.push(msg);
            }
        });
    }));
}

/// panics recorded on this thread since the last take
pub fn take() -> Vec<String> {
    MSGS.with(|m| std::mem::take(&mut *m.borrow_mut()))
}

pub fn payload_msg(p: &Box<dyn std::any::Any + Send>) -> String {
    if let Some(s) = p.downcast_ref::<&str>() {
        s.to_string()
    } else if let Some(s) = p.downcast_ref::<String>() {
        s.clone()
    } else {
        "<non-string panic>".to_string()
    }
}

/// Run `f`, catching an unwind. Returns (result, messages of every panic raised on this thread
/// meanwhile — more than one means a panic was raised while another was being handled).
pub fn observe<R>(f: impl FnOnce() -> R) -> (Result<R, String>, Vec<String>) {
    let _ = take();
    let r = std::panic::catch_unwind(std::panic::AssertUnwindSafe(f));
    let msgs = take();
    match r {
        Ok(v) => (Ok(v), msgs),
        Err(p) => (Err(payload_msg(&p)), msgs),
    }
}

/// classify a panic message into the classes the library can raise
pub fn classify(m: &str) -> &'static str {
    if m.contains("called more times than expected") {
        "over-called"
    } else if m.contains("called with unexpected arguments") {
        "unexpected-args"
    } else if m.contains("expected to be called") {
        "count-mismatch"
    } else if m.contains("will_return_boolean requires") {
        "bool-sig-mismatch"
    } else if m.to_lowercase().contains("signature") || m.to_lowercase().contains("mismatch") {
        "sig-mismatch"
    } else if m.to_lowercase().contains("null") {
        "null-pointer"
    } else if m.contains("Failed to allocate") {
        "alloc-failed"
    } else if m.contains("mprotect failed") {
        "mprotect-failed"
    } else if m.contains("out of branch range") {
        "branch-range"
    } else if m.starts_with("USER:") || m == "<non-string panic>" {
        // the library only ever panics with a message: any other payload is the user's
        "user"
    } else {
        "other"
    }
}
